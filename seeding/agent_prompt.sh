#!/bin/bash
# usage: agent_prompt.sh ID  -> prints the prompt for the sub-agent
ID=$1
cat <<P
You are helping to evaluate a verification framework by producing realistic *property-breaking* code changes ("seeded defects") for the Python project gwf (a make-like scientific workflow tool: builds a file-dependency DAG, decides staleness, submits targets to Slurm/SGE/LSF or a local asyncio worker pool).

Your private git worktree of the project is at /tmp/wt/$ID (source under /tmp/wt/$ID/src/gwf, tests under /tmp/wt/$ID/tests). Work ONLY inside /tmp/wt/$ID. Do not read or touch /repo, /verif or anything else outside your worktree (apart from using /venv/bin/python). There is no network.

The semantic property to break is:

$(cat /tmp/wt/prop_$ID.txt)

Task: produce TWO different, independent changes to the source under /tmp/wt/$ID/src/gwf, each of which
  1. makes gwf violate the property above (on some input / history / schedule / fault),
  2. still imports and still passes the existing test suite. Run it with:
       cd /tmp/wt/$ID && PYTHONPATH=/tmp/wt/$ID/src /venv/bin/python -m pytest -q -p no:cacheprovider --continue-on-collection-errors tests
     On the unmodified tree this gives "76 passed" and 23 errors (the tests/plugins tests cannot run: missing fixture). Your change must still give 76 passed and the same 23 errors.
  3. looks like a plausible mistake or well-meant refactoring a developer could make (not an obviously malicious edit), and
  4. needs something specific to manifest — a particular interleaving, a fault at a particular point, a multi-step sequence of operations, an unusual-but-legal input, or two cooperating code sites that each look fine alone — rather than something ordinary use would expose at once.

For each change deliver, in /tmp/wt/$ID/seed1/ and /tmp/wt/$ID/seed2/:
  - patch.diff : a unified diff against the unmodified worktree (create with: git -C /tmp/wt/$ID diff -- src > patch.diff  while only that change is applied; then revert with git -C /tmp/wt/$ID checkout -- src before starting the next one)
  - demo.py (or test_demo.py): a small stand-alone demonstration program (plain python or pytest) that FAILS (non-zero exit / failing assert) when the change is applied and PASSES on the unmodified tree. It must set up everything it needs itself (temporary directories, fake scheduler commands on PATH or monkeypatched gwf.backends.utils.call / subprocess, a fake or real local worker pool, etc.), import gwf from /tmp/wt/$ID/src (sys.path.insert(0, '/tmp/wt/$ID/src') — make the path overridable through the environment variable GWF_SRC), run in well under a minute, and not depend on the network.
  - notes.txt : 5-10 lines: what the change does, why the property is violated, what exactly is needed for it to manifest, and the exact commands you ran with their outcomes (test suite with the change; demo with and without the change).

Verify everything yourself: test suite passes with each change, demo fails with the change and passes without it. Use only "git apply" and "git checkout -- src" to switch changes on and off (never "git stash": the stash is shared with other people working in sibling worktrees), and give temporary files and directories a prefix unique to you (e.g. containing '$ID'); never delete temp files by a broad glob. Leave the worktree's src unmodified at the end (git -C /tmp/wt/$ID status should show only the seed1/ seed2/ directories as untracked). Report in your final message the two one-line summaries and whether all verifications succeeded.
P
