#!/bin/bash
export PYTHONPATH=/verif
cd /verif
while read -r line; do
  set -- $line
  /venv/bin/python -m mc.seedtool /tmp/wt/$1 $2 $3 ${@:4} 2>&1 | grep -v WARNING | cut -c1-320
done
