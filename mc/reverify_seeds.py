"""Re-confirm every filed seed against /repo's current HEAD and refresh seeded/<name>/{patch.diff,meta.json}.
usage: python -m mc.reverify_seeds [names...]"""
import json
import os
import subprocess
import sys

VERIF = os.path.dirname(os.path.dirname(os.path.abspath(__file__)))
RELATED = {
    "C01": ["C01", "C05", "C18"], "C02": ["C02", "C05", "C07"], "C03": ["C03", "C04"], "C04": ["C04", "C03"], "C05": ["C05", "C08"], "C06": ["C06", "C02", "C08"],
    "C07": ["C07", "C02"], "C08": ["C08"], "C09": ["C09", "C18"], "C10": ["C10"], "C11": ["C11", "C13"], "C12": ["C12", "C13"], "C13": ["C13", "C11"], "C14": ["C14"],
    "C15": ["C15"], "C16": ["C16", "C18"], "C17": ["C17", "C14"], "C18": ["C18", "C05"], "C19": ["C19"], "C20": ["C20"],
}


def main():
    names = sys.argv[1:] or sorted(os.listdir(os.path.join(VERIF, "seeded")))
    for n in names:
        d = os.path.join(VERIF, "seeded", n)
        meta = json.load(open(os.path.join(d, "meta.json")))
        prop = meta["property"]
        checks = sorted(set([prop] + list(meta.get("detected_by") or []))) if os.environ.get("REVERIFY_NARROW") else RELATED[prop]
        r = subprocess.run(["/venv/bin/python", "-m", "mc.seedtool", d, n, prop] + checks, capture_output=True, text=True, env=dict(os.environ, PYTHONPATH=VERIF), cwd=VERIF)
        out = [l for l in r.stdout.splitlines() if "WARNING conda" not in l]
        print("\n".join(l[:200] for l in out[:6]), flush=True)


if __name__ == "__main__":
    main()
