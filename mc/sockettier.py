"""Real-socket tier for C14: a real worker pool (`start_cluster` in its own process, real TCP port, real `sh` children) receives
every misbehaviour sequence of length <= L from a byte-level alphabet on one connection while gwf's real `Client` objects (H before,
N after) submit and poll. The pool must keep answering H and N truthfully, issue distinct ids and bring every accepted task to a final
state."""
import json
import os
import shutil
import socket
import struct
import subprocess
import sys
import tempfile
import time

ENQ = dict(__kind__="enqueue_task", name="m", script="true", time_limit=None, working_dir="/tmp", deps=[])


def _line(obj):
    return (json.dumps(obj) + "\n").encode()


M_BYTES = {
    "garbage": [b"garbage\n"],
    "empty-line": [b"\n"],
    "empty-object": [b"{}\n"],
    "json-list": [b"[1]\n"],
    "json-string": [b'"str"\n'],
    "unknown-kind": [_line(dict(__kind__="nope"))],
    "enq-missing-field": [_line({k: v for k, v in ENQ.items() if k != "working_dir"})],
    "enq-extra-field": [_line(dict(ENQ, bogus=1))],
    "enq-deps-unknown": [_line(dict(ENQ, deps=[987654]))],
    "enq-deps-wrongtype": [_line(dict(ENQ, deps="ab"))],
    "enq-missing-cwd": [_line(dict(ENQ, working_dir="/nonexistent-dir-for-gwf-mc"))],
    "state-unknown-id": [_line(dict(__kind__="get_task_state", tid=987654))],
    "cancel-unknown-id": [_line(dict(__kind__="cancel_task", tid=987654))],
    "cancel-string-id": [_line(dict(__kind__="cancel_task", tid="abc"))],
    "invalid-utf8": [b"\xff\xfe\n"],
    "half-line": [b'{"__kind__": "get_ta'],
    "long-line": [b'{"__kind__": "' + b"x" * 70000 + b'"}\n'],
    "states": [_line(dict(__kind__="get_task_states"))],
    # a client that keeps asking and never reads an answer: the server's send path for this connection eventually blocks
    "flood-noread": [_line(dict(__kind__="get_task_states")) * 400] * 40,
}
ENDINGS = ("close", "reset", "abandon")  # orderly FIN, RST, or leave the connection open


def free_port():
    s = socket.socket()
    s.bind(("127.0.0.1", 0))
    p = s.getsockname()[1]
    s.close()
    return p


class Pool:
    def __init__(self, repo_src, cores=2, tick=None):
        self.dir = tempfile.mkdtemp(prefix=f"gwf-mc-sock-p{os.getpid()}-", dir="/dev/shm")
        os.makedirs(os.path.join(self.dir, ".gwf", "logs"))
        self.port = free_port()
        code = f"import sys; sys.path.insert(0, {repo_src!r}); from gwf.backends.local import start_cluster; start_cluster({self.dir!r}, {cores}, '127.0.0.1', {self.port})"
        self.proc = subprocess.Popen(["/venv/bin/python", "-c", code], stdin=subprocess.DEVNULL, stdout=subprocess.DEVNULL, stderr=subprocess.DEVNULL, start_new_session=True)
        t0 = time.time()
        while time.time() - t0 < 90:
            if tick:
                tick()
            try:
                socket.create_connection(("127.0.0.1", self.port), timeout=0.3).close()
                return
            except OSError:
                time.sleep(0.05)
        raise RuntimeError("pool did not start")

    def stop(self):
        try:
            os.killpg(self.proc.pid, 9)
        except OSError:
            pass
        self.proc.wait()
        shutil.rmtree(self.dir, ignore_errors=True)


class T:
    def __init__(self, name, spec, wd):
        self.name, self.spec, self.working_dir = name, spec, wd


def client(port, timeout=15.0):
    from gwf.backends.local import Client

    s = socket.create_connection(("127.0.0.1", port), timeout=timeout)
    s.settimeout(timeout)
    return Client.from_socket(s)


def run_sequence(pool, seq, ending, n, tick=None):
    """Returns a list of problems."""
    problems = []
    wd = pool.dir
    try:
        h = client(pool.port)
        a = h.submit(T(f"a{n}", "true", wd))
        b = h.submit(T(f"b{n}", "true", wd), deps=[a])
    except Exception as e:
        return [f"healthy client H could not submit: {type(e).__name__}: {e}"]
    try:
        m = socket.create_connection(("127.0.0.1", pool.port), timeout=15)
    except OSError as e:
        return [f"pool does not accept a new connection (M's own) although H is being served: {type(e).__name__}: {e}"]
    try:
        for label in seq:
            for chunk in M_BYTES[label]:
                if label == "flood-noread":
                    m.settimeout(0.5)
                    try:
                        m.sendall(chunk)
                    except (socket.timeout, BlockingIOError):
                        break  # the server stopped reading this connection (it is stuck sending to it): enough
                    finally:
                        m.settimeout(15)
                    continue
                m.sendall(chunk)
        time.sleep(0.02)
        if ending == "close":
            m.close()
        elif ending == "reset":
            m.setsockopt(socket.SOL_SOCKET, socket.SO_LINGER, struct.pack("ii", 1, 0))
            m.close()
    except OSError:
        pass  # the server may have dropped M already: that is its right
    try:
        st_h = h.status()
    except Exception as e:
        problems.append(f"H no longer answered after M's {seq}/{ending}: {type(e).__name__}: {e}")
        st_h = {}
    try:
        nn = client(pool.port)
        c = nn.submit(T(f"c{n}", "true", wd))
    except Exception as e:
        return problems + [f"pool does not accept a new client/task after M's {seq}/{ending}: {type(e).__name__}: {e}"]
    if len({a, b, c}) != 3:
        problems.append(f"ids not distinct: a={a} b={b} c={c}")
    t0 = time.time()
    final = ("COMPLETED", "FAILED", "CANCELLED", "KILLED")
    st = {}
    while time.time() - t0 < 25:
        if tick:
            tick()
        try:
            st = {k: v.name for k, v in nn.status().items()}
        except Exception as e:
            problems.append(f"N's status poll failed: {type(e).__name__}: {e}")
            break
        if all(v in final for v in st.values()):
            break
        time.sleep(0.05)
    for tid, want in ((a, "COMPLETED"), (b, "COMPLETED"), (c, "COMPLETED")):
        if st.get(str(tid)) != want:
            problems.append(f"task {tid} is {st.get(str(tid))}, expected {want}")
    stuck = {k: v for k, v in st.items() if v not in final}
    if stuck:
        problems.append(f"accepted tasks not final after 25 s: {stuck}")
    for cl in (h, nn):
        try:
            cl.close()
        except Exception:
            pass
    if ending == "abandon":
        try:
            m.close()
        except OSError:
            pass
    return problems


def socket_batch(acc, batch):
    from mc.runner import REPO

    pool = Pool(os.path.join(REPO, "src"), tick=acc.tick)
    prior = []  # what this pool has been through since it was started: part of the case (a pool is not reset between sequences)
    try:
        for n, (seq, ending) in enumerate(batch):
            acc.tick()
            problems = run_sequence(pool, seq, ending, n, tick=acc.tick)
            case = dict(kind="socket", seq=list(seq), ending=ending, prior=[[list(s_), e_] for s_, e_ in prior])
            prior.append((seq, ending))
            acc.case(key=json.dumps(case), outcome=f"socket ok={not problems}", sample=case)
            acc.extra["real_socket_sequences"] += 1
            acc.extra["traces_validated"] += 1
            if problems:
                acc.violation(sig=dict(what=problems[0].split(":")[0][:60], tier="socket", first=seq[0] if seq else None, ending=ending), case=case, observed=problems,
                              msg=f"[real-socket tier] misbehaving client sends {list(seq)} then {ending}: {problems[:3]}")
                # a wedged pool would fail every later sequence too: start a fresh one so that each report stands for itself
                pool.stop()
                pool = Pool(os.path.join(REPO, "src"), tick=acc.tick)
                prior = []
    finally:
        pool.stop()


def sequences(maxlen):
    import itertools

    labels = list(M_BYTES)
    out = []
    for L in range(0, maxlen + 1):
        for seq in itertools.product(labels, repeat=L):
            for e in ENDINGS:
                out.append((seq, e))
    return out
