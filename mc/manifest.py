"""Generates /verif/MANIFEST.json from the table below (run: /venv/bin/python -m mc.manifest)."""
import json
import os

VERIF = os.path.dirname(os.path.dirname(os.path.abspath(__file__)))

CHECKS = {
    "C01": dict(
        level="exploration",
        design="§4 C01",
        technique="bounded-exhaustive enumeration of single-target cases and whole small workflows against an independent reference (explicit enumeration, no sampling)",
        text="Every target with <=2 (thorough 3) inputs/outputs, every mtime assignment over {missing,1..3} incl. ties, every container shape, "
        "spec hashing off/none/same/diff, backend unknown/completed; every valid workflow over n<=2 (3) targets and m<=3 (4) files x every file state; "
        "plus a CLI sub-bound on real files through `gwf status`/`gwf run` with a simulated Slurm. Compared with ref.plan.up_to_date / ref.plan.plan.",
        note="Trusted: the reference model mc/ref/plan.py (25 lines, written from the statement), os.utime-stamped real files for the CLI part, the Slurm simulator for counting submissions.",
    ),
    "C02": dict(
        level="exploration", design="§4 C02",
        technique="bounded-exhaustive enumeration: all labelled DAGs x backend-state vectors x freshness x selections, submission sequence compared with a reference plan",
        text="All 25 labelled DAGs on 3 targets (thorough: + all 543 on 4 with reduced alphabets) x 6^n backend-state vectors x 3^n freshness x a selection alphabet "
        "(default, name subsets, fnmatch patterns, non-matching), plus all valid 2-target/3-file workflows x file states x backend vectors, through the real filter_names + "
        "submit_workflow over a real TrackingBackend whose tracked file is written and re-read. Oracle on the submission *sequence*: set, multiplicity, order, exact prerequisite ids, tracked file. Plus a CLI sub-bound: the real `gwf run <selection>` (plugins/run.py's own selection logic) on a simulated Slurm for all 25 DAGs x 3 freshness vectors x 13 selections incl. non-matching patterns.",
        note="Trusted: mc/ref/plan.py; scheduler answers are injected at TrackingBackend's ops interface (CLI-level agreement is C05/C08).",
    ),
    "C03": dict(
        level="exploration", design="§4 C03",
        technique="bounded-exhaustive enumeration of path spellings / working dirs / shapes / definition orders against an independent relational oracle",
        text="Pair family: every (output spelling x input spelling) over 8 spellings x working-dir configs (absolute/relative, nested) x file location x 5 container shapes x 3 definition orders; "
        "all-workflows family: every role assignment of 3 files to n<=3 targets with unique producers and no cycle x rotating spelling assignments x all n! definition orders; "
        "CLI sub-bound through `gwf info` JSON. Oracle: ref.graph.relations over ref.paths (own lexical normaliser): dependencies, dependents (inverse), provides, unresolved, endpoints.",
        note="Lexical normalisation only (no symlinks); leading '//' excluded (implementation-defined in POSIX).",
    ),
    "C04": dict(
        level="exploration", design="§4 C04",
        technique="bounded-exhaustive enumeration of all target sets over a small file pool + parametric ring/chain sweeps + CLI side-effect snapshots",
        text="All target sets of n<=3 targets over m=2 files (thorough m=3, and n=4/m=2) with arbitrary input/output subsets (self loops, 2/3-cycles, duplicate producers also across spellings, missing sources, all combinations) "
        "x existing-file subsets x all definition orders: accepted iff ref classification empty, else the raised error kind must apply. k-rings k=2..8 at every rotation with the acyclic part defined first; chains to 2000 (thorough 5000) "
        "through graph/dfs/status/submit/touch; CLI: 6 ill-formed workflows x 10 commands: non-zero exit, Error: line, no traceback, world + scheduler journal unchanged.",
        note="'any size' is a sweep to the stated maximum, not a proof.",
    ),
    "C05": dict(
        level="model_checking", design="§4 C05",
        technique="explicit-state BFS over world states; every transition executes the real gwf CLI in-process against simulated schedulers; relational + frame-condition oracle in every state",
        text="BFS (depth 2-4 quick, 4-6 thorough) from empty and fully-built projects of the fork/chain/diamond workflows on slurm (accounting on/off), sge, lsf, hashing on/off, under "
        "{run, run X, job start/finish-ok/finish-fail/cancel/forget, modify source, delete output}. In every state: status rows in cone(R) that are shouldrun/failed/cancelled = 'Would submit' set of run -d R = "
        "submissions journaled by run R for every selection R; 14 filter/format combinations equal the restriction/counts of the full table; after status and run -d the scheduler journal has no submit/cancel and the semantic snapshot is unchanged. Local backend: the same agreement / no-side-effect checks in a BFS over world states in which gwf's real Client talks to the real Server/Scheduler on the virtual loop (incl. pool restarts). Fresh-process tier: a designated sub-bound (worlds reachable by <=2 actions x 6 commands x backends) re-run in separate interpreters with the simulator executables on PATH must be observationally equal.",
        note="Scheduler simulators are an assumption; local backend covered by the pool checks.",
    ),
    "C08": dict(
        level="model_checking", design="§4 C08",
        technique="exhaustive state-code table sweep + squeue x sacct matrix + explicit-state BFS over invocation histories with a reference view of the scheduler's job table",
        text="Every documented state code (24 squeue, 16 sacct incl. 'CANCELLED by', 11 LSF, 19 SGE) as the tracked job's state x file state with prefix-related ids and foreign jobs in the queue; the full squeue x sacct x accounting matrix incl. 'sacct never called when off'; "
        "1..2049 tracked jobs; BFS over histories (run, run X, scheduler transitions, queue forget, lagging accounting, source modification) checking in every state, from a separate invocation, that each row equals the class of the scheduler-visible state of the job accepted at the target's last submission and that the tracked file names exactly those ids. Local backend: BFS over histories incl. worker-pool restarts with the real Client/Server pair: rows = pool's true state of each target's latest accepted task (known finding: id reuse after a restart).",
        note="State-code classes are my reading of the scheduler documentation (permitted sets where the statement is silent). Local pool restarts: see C13/C14 and DESIGN D7.",
    ),
    "C06": dict(
        level="model_checking", design="§4 C06",
        technique="direct enumeration of job-free project states + exhaustive BFS over the simulated scheduler's legal execution orders; fixpoint and minimal-re-run oracle on the real CLI in every terminal state",
        text="Every job-free state of the fork/chain (thorough also diamond) workflow: 3^n per-target output freshness x latest-job outcome none/DONE/FAILED/CANCELLED per target (quick: <=2 jobs), slurm/sge/lsf, hashing on/off, selections default and single target. "
        "After the real `gwf run`, all legal start/finish orders are explored; in every terminal state status must show every cone target with outputs completed and a re-run must submit none; then every single perturbation (each source modified, each output deleted) must make the next run submit exactly the reference set (thorough: iterated twice). Local backend: five histories (fresh, failed/skipped earlier runs, perturbations) x fork/chain x selections, every order in which the pool's processes may exit, same fixpoint and minimal re-run oracle.",
        note="Premise of the property (jobs succeed and create their outputs) is built into the simulator step; simulators are assumptions.",
    ),
    "C07": dict(
        level="model_checking", design="§4 C07",
        technique="explicit-state BFS over gwf invocations and all scheduler schedules; invariant on the enabledness of every pending job against independently recorded prerequisite sets",
        text="BFS to depth 6-7 (thorough deeper) over {run, run X, run Y, start, finish_ok, finish_fail, timeout, cancel} on diamond/fork/chain x slurm/sge/lsf. For every job the harness records from the reference graph which jobs it must wait for; "
        "in every reachable state: the dependency spec parsed by the simulator's own reader names exactly those ids in the documented form (afterok / hold_jid list / conjunction of done()), and start(j) is enabled iff all of them are DONE (Slurm, LSF) or ended (SGE). Local backend: every enqueue_task message sent by gwf's real Client in a BFS over CLI world states (diamond, shortcut; incl. pool restarts) must name exactly the ids of the direct dependencies that were not complete; the pool-side half (a task starts only after those ids completed) is C11.",
        note="Dependency semantics of the three schedulers as implemented in mc/simsched.py (unknown ids rejected by Slurm/LSF, ignored by SGE).",
    ),
    "C09": dict(
        level="fault_enumeration", design="§4 C09",
        technique="exhaustive fault injection at every scheduler-command position x 5 failure kinds and crash snapshots at every scheduler interaction and every open/write/close of a state-file write; follow-up commands checked against the scheduler's accepted-job table",
        text="chain/fork (thorough + diamond) x slurm/sge/lsf x {fresh project, one job in flight}, hashing on. Every command index of the run x {exit 1, 'error:' on stderr, garbage stdout, empty stdout, Python exception}; "
        "kill -9 snapshots before/after every scheduler command and at open / each write / close of every state-file write. From every resulting state: status and run start normally, no duplicate of an accepted pending/running job, follow-up submissions name accepted jobs as prerequisites, hash records only for accepted targets. Local backend: connection reset and lost reply at every request of the run, crash snapshots around every request and state-file write. Slurm additionally with accounting disabled; the faulted run itself is also checked for duplicates.",
        note="One known finding (KF-C09-accept-window): kill between the scheduler's acceptance and the rename of the tracked file. Kill = process death, not power loss.",
    ),
    "C17": dict(
        level="model_checking", design="§4 C17",
        technique="explicit-state BFS to reach every mix of job states; per state exhaustive selection x failing-cancel-position enumeration on the real CLI; function-level permutation enumeration of the selected set",
        text="States reached by BFS (depth 5, thorough 7) over {run, run X, start, finish_ok, finish_fail, forget} for slurm/sge/lsf. Per state 13 selections (none with prompt y/n/EOF, -f, each name, patterns, non-matching, two names) and for multi-target selections the k-th cancel command failing (exit 1 / 'error:' on stderr) for every k. "
        "Cancel requests = latest jobs of the selected targets (each once, all live ones, nothing else); failures reported and not stopping later cancels; declined prompt changes nothing; after the scheduler carried the cancellations out status = reference plan and the next run submits what the plan requires. cancel_many: every permutation of <=3 targets x failing/untracked subsets. Local backend: cancel probes in a BFS over CLI world states with the real Client/Server pair incl. a history with stale high ids after a pool restart: requests = tracked latest tasks, a selected target's own live task never survives, no collateral cancels (known finding: stale ids after restart). Fresh-process tier for 5 cancel invocations.",
        note="Simulated scancel/qdel/bkill; local pool cancel: C13/C14.",
    ),
    "C18": dict(
        level="model_checking", design="§4 C18",
        technique="explicit-state BFS over command histories with a reference record map compared after every transition",
        text="17-action alphabet {run, run X, run -d, status, touch, touch X, clean --all -f, clean X, clean -f, edit spec (2), config set use_spec_hashes on/off via the real CLI, rename, remove, run with k-th submission rejected (2), all jobs finish} from three initial worlds (enabled/no file, enabled/all recorded, disabled) to depth 3 (thorough 4). "
        "After every transition: hash file (absent = {}) equals the reference map; `gwf status` equals the reference plan under those records.",
        note="Slurm simulator only (hash logic is backend independent).",
    ),
    "C11": dict(
        level="model_checking", design="§4 C11",
        technique="stateless deviation-bounded DFS over choice sequences (step / process exit / timer / client op) on a hand-stepped asyncio loop running the real Scheduler and Server, with state-hash pruning; spawn monitor + reference final-state table",
        text="All task DAGs on <=3 tasks (thorough 4) with dependencies on earlier ids, cores 1-2 (3), time limit on/off, exit codes {0,1}, one (thorough two) cancel at every script position and target, API and pipelined server delivery, start failure, unknown dependency id; every execution with <=1 (thorough 2) early deliveries. "
        "Monitor at every spawn: each dependency has an observed process that exited 0 and is COMPLETED; at the horizon: a task with a failed/killed/cancelled dependency never spawned and ended failed resp. cancelled. Conformance tiers: pruning validated against unpruned exploration on a scenario slice; explored traces replayed against real `sh` children on a stock asyncio loop (final states, spawn set, overlap).",
        note="Fake child processes / clock; asyncio primitives as shipped. Real-process tier: see DESIGN §3.7.",
    ),
    "C12": dict(
        level="model_checking", design="§4 C12",
        technique="same exhaustive schedule exploration; invariant on the live-process count at every spawn and work-conservation check at every quiescent state",
        text="Same executions as C11 plus burst scenarios (failed dependency + skipped dependent followed by >= cores+1 runnable tasks; cancel while waiting for a core; time-out). "
        "At every spawn: processes alive and not yet sent a kill <= cores. At every quiescent state: if a submitted task has all dependencies completed, the number of tasks holding a core >= cores. Same conformance tiers as C11.",
        note="The bound counts processes that have not been sent SIGKILL/SIGTERM.",
    ),
    "C13": dict(
        level="model_checking", design="§4 C13",
        technique="same exhaustive schedule exploration; stability monitor on every state and a reference table mapping what happened to a task to its admissible final states",
        text="Same executions plus environment answers: start failure, missing log directory, 70 kB payloads, natural exit racing a kill. Final states never change; no task spawned twice; at the horizon every accepted task is final and in the set ref.pool allows "
        "(completed iff ran and exited 0 without cancel/time-out; failed/killed for non-zero exit, start failure, time-out, failed dependency; cancelled if a cancel was processed while it was submitted/running or a dependency was cancelled); logs of tasks that ran to their end equal the payloads; no process alive at the horizon. Real-process tier: 5 scripts that spawn children x {cancel, time-out}: afterwards no process carrying the run's token exists in /proc; 4 output scenarios (300 kB on each stream in both orders, interleaved, small + exit 3): logs complete and final state right.",
        note="'No child process keeps running after cancel' needs real processes (sh wrapper vs command): real-process tier / DESIGN D14.",
    ),
    "C14": dict(
        level="model_checking", design="§4 C14",
        technique="exhaustive interleaving exploration of three client connections (real Server.handle_connection coroutines on the virtual loop) over a 30-action misbehaviour alphabet",
        text="Healthy synchronous client H [enqueue a; enqueue b(dep a); states], late healthy client N [enqueue c; states], misbehaving client M performing every sequence of <=1 action (deviation bound 1) and selected sequences of 2 (bound 0) [thorough: all pairs, bounds 2/1] from: garbage, empty line, {}, list, string, unknown kind, enqueue missing/extra field, deps unknown id / wrong type / int, state/cancel of unknown id, cancel of a string id, cancel of H's task, invalid UTF-8, half line + EOF, EOF, reset, failing drain, well-formed enqueue. "
        "Checked: ids distinct and answered with the task's own id; every task_states answer equals the true table when written; H and N got every owed answer; every accepted task final and admissible. Real-socket tier: a real worker pool (start_cluster in its own process, TCP) receives every misbehaviour sequence of length <=1 (thorough 2) from an 18-entry byte-level alphabet (incl. a 70 kB line, invalid UTF-8, half line) x {close, reset, abandon} while gwf's real Client submits and polls before and after.",
        note="Connections are StreamReaders fed by the explorer; real sockets only in the real-socket tier.",
    ),
    "C15": dict(
        level="exploration", design="§4 C15",
        technique="bounded-exhaustive enumeration of clean invocations on the real CLI with a before/after snapshot of the whole project against a reference deletion set",
        text="4 workflows (chain, fork with 2-output target and named output, diamond, two components incl. a no-output target and a nested directory) x missing-file subsets x every protect set (none, each single output in 5 spellings: same, ./x, <proj>/x, <proj>/./x, sub/../x; all; a path protected by a non-producer) x 32 CLI variants "
        "(--all x --force x 7 target argument forms, prompt answers y / n / EOF). Oracle: exactly the existing unprotected outputs of the selected non-excluded targets disappear; everything else (sources, unrelated files, logs, tracked jobs, contents and mtimes) identical; hash records of exactly the selected targets erased; declined prompt: nothing changes, non-zero exit. Fresh-process tier for 4 clean invocations over the standard worlds.",
        note="Lexical path normalisation.",
    ),
    "C16": dict(
        level="exploration", design="§4 C16",
        technique="bounded-exhaustive enumeration of initial file states and selections through the real `gwf touch` with audit-hook journaled touch order, plus enumeration of every iteration order of dependency/endpoint sets at function level",
        text="4 workflows (fork with 2-output target, chain, diamond with a no-output target, two components) x every file state over {missing, rank 1..2 (thorough 3)}^outputs x 6 selections x hashing off/on: afterwards every cone target with outputs is `completed` in `gwf status`, existing contents unchanged, created files empty, nothing outside the cone's outputs created or re-stamped, hash records set for exactly the cone when enabled. "
        "touch_workflow with every permutation of the endpoint list and of each multi-dependency set on real files.",
        note="Touch order is recovered from os.utime/open audit events and re-stamped with distinct virtual ticks (kernel mtimes are too coarse).",
    ),
    "C19": dict(
        level="exploration", design="§4 C19",
        technique="metamorphic bounded-exhaustive enumeration (creation way x working_dir x invoking directory) on the real CLI, plus exhaustive validator alphabets for names and path values",
        text="6 creation ways (target, template without/with explicit working_dir, map with name None/string/function) x 3 workflow working_dir modes x 5 invocations (root, nested subdirectory, unrelated dir with -f abs, unrelated with -f relative, -f file:obj): resolved paths, `gwf info` relations, `gwf status` rows and the .gwf location identical and as the reference says. "
        "22 name strings x 3 entry points; 114 path values (str, Path, PurePath, custom __fspath__, empty, every C0 control char + DEL at start/middle/end, None, int, bytes, float) x 6 containers x inputs/outputs; working_dir values; map: item kinds x 0..3 items x naming modes x extra x function/instance.",
        note="In-process invocations with chdir; dotted and non-ASCII names accepted either way.",
    ),
    "C20": dict(
        level="model_checking", design="§4 C20",
        technique="explicit-state BFS over the reachable contents of .gwfconf.json under real `gwf config set/unset` invocations with a reference map, plus exhaustive flag x config x environment precedence matrices (incl. fresh processes under a pty for colour)",
        text="BFS depth 2 over 7-9 keys (dotted keys sharing prefixes, keys with built-in defaults, a never-set key) x 8-14 value strings (integers, signs, boolean words, capitalised, empty, spaces, unicode) and depth 3 (thorough 4) over a reduced alphabet, each transition = set/unset + two gets, alternately from the project root and a nested directory: file equals the reference map, get prints the reference value, file stays next to workflow.py. "
        "Backend 5x5 flag x config matrix (which scheduler's commands are issued), verbosity 4x4 (debug/info lines), colour 3x3x2 under a real pty; namespace isolation: each of 11 look-alike keys alone and all together for each backend (Slurm log mode -> directives, accounting -> sacct calls, local host/port -> connect target).",
        note="No scheduler installed: guessed default = local. Colour needs a tty: 18 fresh processes under pty.openpty().",
    ),
    "C10": dict(
        level="exploration", design="§4 C10",
        technique="bounded-exhaustive enumeration of option-source combinations read back by an independent directive reader, and of spec texts x directory names x backends whose generated scripts are really executed with bash and compared with a reference execution",
        text="Options: for every known option of slurm (11), sge (5), lsf (3): all 64 combinations of {absent, value1, value2, None} at workflow default / template / keyword + an unknown option at each source + 25 SGE memory x cores combinations; the script captured on the simulated sbatch/qsub/bsub stdin must carry exactly the resolved value, no directive twice, no placeholder, None => absent, unknown => dropped with a warning. "
        "Execution: every spec of <=3 (thorough 4) lines over a 7-line alphabet (redirections, quotes and $, printf with braces and %, false, exit 3, heredoc, stderr), with and without trailing newline, on 5 backend/log modes, plus 12 directory names with shell metacharacters: the script is run with bash from a foreign cwd with stdout/stderr routed per its directives and must produce the same files, exit status and captured output as `cd <wd> && bash -e` of the bare spec; `gwf logs` prints those bytes. "
        "Log cleaning: subsets of 8 log files x target sets x clean_logs unset/on/off x dry-run.",
        note="The spec space is bounded by the line alphabet; the scheduler's way of starting the script is an assumption (bash, foreign cwd, output files from the directives).",
    ),
}

PENDING = {
}

# what was added to each check after its description above was written (seed waves 4-10; DESIGN §11b)
ADDED = {
    "C01": "CLI part: a dry run and a run whose submission the scheduler rejects between two `status` calls change nothing; non-sequence containers (dict views, UserDict, mappingproxy, re-iterables).",
    "C02": "CLI sub-bound through the real `gwf run <selection>` incl. patterns matching nothing; the scheduler rejecting the k-th submission of a run (nothing downstream of the rejected target is submitted, prerequisites of what is submitted stay exact). Preview-differential family: for every (workflow, hashing on/off, fresh/empty project, one disturbance: script edited / source touched / output deleted) the real run submits the same jobs with the same prerequisites after any prefix of previews (`run --dry-run`, `status`) as without them, and the run without previews submits exactly the reference plan of that world. History family: `gwf run`, scheduler runs the dependencies of X, X started or not, its outputs written or not, X cancelled / failed / timed out / completed, forgotten by the queue or not, on Slurm (accounting on/off), SGE and LSF; the second `gwf run` must submit exactly the reference plan of that world with exact prerequisite ids.",
    "C03": "9 spellings (incl. trailing slash), 9 container shapes (incl. UserDict, mappingproxy, pathlib and non-pathlib path objects), two file names differing only in Unicode normal form, absolute-but-unnormalised working dirs, a working directory reached through a symbolic link on disk, `gwf info NAME`; thorough: all 4-target assignments.",
    "C04": "Relative `..` spellings, reconvergent layered DAGs, real-file-system input kinds (file, directory, symlinks, dangling, symlink loop, a path below a regular file), stale logs of removed targets in the CLI family.",
    "C05": "Shortcut workflows (redundant edge whose far end sorts later), mixed-command histories, local backend through gwf's real Client, fresh-process tier.",
    "C06": "Shortcut workflow; jobs that give outputs the time stamp of their newest input (ties); local backend with all exit orders.",
    "C07": "Workflow written top-down (dependents defined first); one scheduler step before the k-th scheduler command of a running `gwf run` (prerequisite fails / is cancelled / finishes while gwf is submitting); local backend.",
    "C08": "Requeued jobs, sacct consulted when squeue fails, status as an action in histories, local backend (knock-on rows of a stale-id target are attributed to the known id-reuse finding).",
    "C09": "Write faults (the k-th open-for-writing of the run fails with ENOSPC, incl. LSF script copies), crash point right after the rename that publishes a state file, a successful bsub whose answer is surrounded by lines of a site's submission filter, in-run duplicate check, accounting off, local backend (connection reset / reply lost at every request).",
    "C10": "Falsy option values, unopenable log paths as observations, bash executions with stdin=/dev/null.",
    "C11": "A dependent that starts after its dependency was cancelled while unfinished, a task depending on an id the pool never issued (number / string form of a live id), log-write failure of a dependency with non-zero exit, negative exit codes.",
    "C12": "CLI-level family (four targets asking for more cores than the pool has, run through the real Client on the bridged pool, every exit order, three rounds, bound on processes alive at once). Capacity probe at every horizon (cores+1 fresh tasks: exactly `cores` run at once, all run), per-task log-write failures followed by more ready tasks than cores, SIGTERM-only processes count as live.",
    "C13": "Scheduler.shutdown() while tasks run / wait for a core / wait for a dependency; process creation failing with ValueError; process groups with a member that ignores SIGTERM (virtual and real tier), the pool's clock owned by the loop, background commands outliving the shell (real tier), output completeness (real tier).",
    "C14": "30 actions (enqueue and cancel of the id it will get in one write, enqueue and state query in one write, float ids, an unstartable task, a client that never reads its answers), task_state answers validated, final-state oracle for every accepted task, capacity probe; socket tier: flooding client that never reads, cases carry the pool's history.",
    "C15": "Commands started from a sub-directory / with -f (decoys of the same relative names), a declared output that is a directory with other files inside, a declared output that is a symlink to an unrelated file.",
    "C16": "Outputs in missing sub-directories, outputs that are symbolic links (to a stale / fresh / missing file), shortcut workflows; re-stamping only what the kernel really stamped and never times a program chose explicitly.",
    "C17": "One target selected twice (overlapping patterns, same name twice), any change to a non-selected non-downstream task is collateral (local), failing cancel with empty stderr, local backend incl. stale ids.",
    "C18": "18 actions (a failing job); every ordered pair of 15 white-space/case variants of one spec (recorded by a real touch, edited, judged by status and run on the spec text gwf itself holds); 'enabled' = what the user last set.",
    "C19": "cmd family: eleven commands from the project root, a nested directory and an unrelated directory with -f compared differentially (decoy files in both); workflow files named gwf_pipeline.py / flow-1.py; project reached through a symlink; map() over tuples, iterators, generators, dict keys; naming function returning duplicates; C1 control characters.",
    "C20": "Global options (-b, -v, --no-color) combined with config set/unset/get; float-looking and JSON-looking text values; the accounting setting checked on `status` after `run` and calibrated against accounting on.",
}

ALL = [f"C{i:02d}" for i in range(1, 21)]


def build():
    checks = []
    for cid in ALL:
        if cid not in CHECKS:
            continue
        c = CHECKS[cid]
        checks.append(
            dict(
                property_id=cid,
                quick_cmd=f"./check {cid} --tier quick",
                thorough_cmd=f"./check {cid} --tier thorough",
                evidence_file=f"/verif/evidence/{cid}.json",
                replay_cmd_template=f"./check {cid} --replay {{path}}",
                engine=c.get("engine", "mc"),
                level_claimed=dict(category=c["level"], text=c["text"] + (" Added later: " + ADDED[cid] if cid in ADDED else ""), design_ref=c["design"]),
                level_note=c["note"],
                technique=c["technique"],
            )
        )
    na = [
        dict(property_id=cid, reason=PENDING.get(cid, "check not built yet in this round (planned: see DESIGN.md §4); nothing is claimed for it"))
        for cid in ALL
        if cid not in CHECKS
    ]
    return dict(
        version=1,
        setup_cmd="/venv/bin/python -c 'import gwf, click, attrs' && chmod +x /verif/check /verif/bin/* 2>/dev/null; true",
        hooks=dict(
            guard="GWF_VERIF",
            enable="none needed: the harness replaces module attributes (gwf.backends.utils.subprocess/shutil, asyncio.create_subprocess_shell) at run time; no source hooks exist in /repo",
            baseline_off_cmd="cd /repo && /venv/bin/python -m pytest -ra -q -p no:cacheprovider --timeout=900 --continue-on-collection-errors",
            source_commits=[],
            add_only=True,
        ),
        engines=[
            dict(name="mc", path="/verif/mc", serves_properties=sorted(CHECKS), kind_free_text="hand-written bounded-exhaustive explorers (E1 input enumeration, E2 explicit-state BFS over world states, E3 deviation-bounded schedule DFS on a virtual asyncio loop, E4 fault/crash-point enumeration) running the real gwf code from /repo/src against reference models in mc/ref"),
        ],
        checks=checks,
        not_applicable=na,
        notes="gwf is imported from $VERIF_REPO/src (default /repo/src) as it stands; no build step. See DESIGN.md.",
    )


if __name__ == "__main__":
    m = build()
    with open(os.path.join(VERIF, "MANIFEST.json"), "w") as f:
        json.dump(m, f, indent=1)
    print("claimed:", [c["property_id"] for c in m["checks"]], "not_applicable:", len(m["not_applicable"]))
