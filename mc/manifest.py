"""Generates /verif/MANIFEST.json from the table below (run: /venv/bin/python -m mc.manifest)."""
import json
import os

VERIF = os.path.dirname(os.path.dirname(os.path.abspath(__file__)))

CHECKS = {
    "C01": dict(
        level="exploration",
        design="§4 C01",
        technique="bounded-exhaustive enumeration of single-target cases and whole small workflows against an independent reference (explicit enumeration, no sampling)",
        text="Every target with <=2 (thorough 3) inputs/outputs, every mtime assignment over {missing,1..3} incl. ties, every container shape, "
        "spec hashing off/none/same/diff, backend unknown/completed; every valid workflow over n<=2 (3) targets and m<=3 (4) files x every file state; "
        "plus a CLI sub-bound on real files through `gwf status`/`gwf run` with a simulated Slurm. Compared with ref.plan.up_to_date / ref.plan.plan.",
        note="Trusted: the reference model mc/ref/plan.py (25 lines, written from the statement), os.utime-stamped real files for the CLI part, the Slurm simulator for counting submissions.",
    ),
}

PENDING = {
}

ALL = [f"C{i:02d}" for i in range(1, 21)]


def build():
    checks = []
    for cid in ALL:
        if cid not in CHECKS:
            continue
        c = CHECKS[cid]
        checks.append(
            dict(
                property_id=cid,
                quick_cmd=f"./check {cid} --tier quick",
                thorough_cmd=f"./check {cid} --tier thorough",
                evidence_file=f"/verif/evidence/{cid}.json",
                replay_cmd_template=f"./check {cid} --replay {{path}}",
                engine=c.get("engine", "mc"),
                level_claimed=dict(category=c["level"], text=c["text"], design_ref=c["design"]),
                level_note=c["note"],
                technique=c["technique"],
            )
        )
    na = [
        dict(property_id=cid, reason=PENDING.get(cid, "check not built yet in this round (planned: see DESIGN.md §4); nothing is claimed for it"))
        for cid in ALL
        if cid not in CHECKS
    ]
    return dict(
        version=1,
        setup_cmd="/venv/bin/python -c 'import gwf, click, attrs' && chmod +x /verif/check /verif/bin/* 2>/dev/null; true",
        hooks=dict(
            guard="GWF_VERIF",
            enable="none needed: the harness replaces module attributes (gwf.backends.utils.subprocess/shutil, asyncio.create_subprocess_shell) at run time; no source hooks exist in /repo",
            baseline_off_cmd="cd /repo && /venv/bin/python -m pytest -ra -q -p no:cacheprovider --timeout=900 --continue-on-collection-errors",
            source_commits=[],
            add_only=True,
        ),
        engines=[
            dict(name="mc", path="/verif/mc", serves_properties=sorted(CHECKS), kind_free_text="hand-written bounded-exhaustive explorers (E1 input enumeration, E2 explicit-state BFS over world states, E3 deviation-bounded schedule DFS on a virtual asyncio loop, E4 fault/crash-point enumeration) running the real gwf code from /repo/src against reference models in mc/ref"),
        ],
        checks=checks,
        not_applicable=na,
        notes="gwf is imported from $VERIF_REPO/src (default /repo/src) as it stands; no build step. See DESIGN.md.",
    )


if __name__ == "__main__":
    m = build()
    with open(os.path.join(VERIF, "MANIFEST.json"), "w") as f:
        json.dump(m, f, indent=1)
    print("claimed:", [c["property_id"] for c in m["checks"]], "not_applicable:", len(m["not_applicable"]))
