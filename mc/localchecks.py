"""CLI-level checks for the *local* backend: gwf's real Client/LocalOps/TrackingBackend against the real Server/Scheduler on the
virtual loop (mc.localbridge). One BFS over world states serves four properties; each violation is tagged with its property:

 C08  status rows = reference plan over the pool's true state of each target's latest accepted task; tracked file names those ids
 C07  every enqueue_task message names exactly the ids of the direct dependencies that were not complete when it was sent
 C17  `gwf cancel` sends cancel_task for the latest task of each selected target and nothing else; afterwards none of them is in flight
 C05  status / dry-run / run agree and the previews send nothing but queries
Pool restarts are part of the alphabet (ids start from 0 again => DESIGN D7).
"""
import fnmatch
import json

from mc import cliworld as CW
from mc import e2
from mc import localbridge as LB
from mc import world as W


def conn_lines(world_before, world_after):
    """Request lines of the connections opened between two world states."""
    n = len(world_before.pool["log"])
    out = []
    for op in world_after.pool["log"][n:]:
        if op[0] == "conn":
            out.append([json.loads(l) for l in op[1]])
    return out


def alias_info(world):
    """Targets whose tracked id was issued by a *previous* pool incarnation and now names a different task."""
    s = world.pool["summary"]
    cur = {t["tid"]: t["name"] for t in s["tasks"]}
    tracked = (world.tracked or {}).get("local") or {}
    aliased = []
    for name, tid in tracked.items():
        lt = LB.latest_task(world.pool, name)
        if lt is not None and lt[0] != s["incarnation"] and tid in cur:
            aliased.append(name)
    return sorted(aliased)


def probe(acc, world, trace, meta, props):
    wf = world.wf
    restarted = any(a[0] == "prestart" for a in trace)

    stale = set(LB.stale_tracked(world))

    def viol(prop, what, observed, blame=(), **sig):
        """blame: the targets the violation is about. `stale_only` is true when every one of them holds a tracked id issued by a
        previous pool incarnation — the signature of the known id-reuse finding (D7); anything else is a different violation."""
        if prop not in props:
            return
        blame = set(blame)
        acc.violation(sig=dict(prop=prop, backend="local", what=what, stale_only=bool(blame) and blame <= stale, **sig), case=dict(kind="local", prop=prop, meta=meta, trace=trace), observed=observed,
                      msg=f"[{prop}] [{meta['wf']}/local] after {trace}: {what}: {json.dumps(observed, default=str)[:500]}")

    _c0, _r0, rel0 = CW.cone_names(world, None)

    def blame_roots(wrong):
        """Of the targets whose row is wrong, those that are not merely downstream of a wrong row of a target holding a stale id (a
        row is derived from the dependencies' rows): the knock-on effects of the known id-reuse finding are attributed to it."""
        wrong = set(wrong)

        def upstream(n, seen):
            for d in rel0["dependencies"].get(n, ()):
                if d in seen:
                    continue
                seen.add(d)
                if (d in wrong and d in stale) or upstream(d, seen):
                    return True
            return False

        return {n for n in wrong if n in stale or not upstream(n, set())}

    pl = CW.ref_plan(world)
    # ---- C08 / C05: status rows, previews
    with W.Session(world) as s:
        r = s.gwf(["status"])
        after = s.snapshot()
        lines = [l for c in conn_lines(world, after) for l in c]
        rd = s.gwf(["run", "-d"])
        after_d = s.snapshot()
        lines_d = [l for c in conn_lines(after, after_d) for l in c]
    acc.extra["invocations"] += 2
    rows = W.parse_status(r.stdout) if r.exit_code == 0 and not r.crashed() else None
    if rows is None:
        viol("C08", "status failed", r.as_dict())
        return None
    if rows != pl["status"]:
        diff = {k: dict(shown=rows.get(k), expected=v) for k, v in pl["status"].items() if rows.get(k) != v}
        roots = blame_roots(diff)
        viol("C08", "row", dict(diff=diff, tracked=(world.tracked or {}).get("local"), pool=world.pool["summary"]["tasks"], aliased=alias_info(world)), blame=roots)
    exp_tracked = {}
    for t in wf.targets:
        lt = LB.latest_task(world.pool, t.name)
        if lt is not None:
            exp_tracked[t.name] = lt[1]
    tracked = (world.tracked or {}).get("local") or {}
    if tracked != exp_tracked:
        viol("C08", "tracked", dict(tracked=tracked, expected=exp_tracked), blame={k for k in set(tracked) | set(exp_tracked) if tracked.get(k) != exp_tracked.get(k)})
    bad = [l["__kind__"] for l in lines + lines_d if l["__kind__"] not in ("get_task_states", "close")]
    if bad or after_d.semantic() != world.semantic():
        viol("C05", "preview sent requests or changed state", dict(requests=bad))
    would = sorted(W.parse_would_submit(rd.stderr + rd.stdout)) if rd.exit_code == 0 else None
    from_status = sorted(n for n, st in rows.items() if st in ("shouldrun", "failed", "cancelled"))
    # ---- run (also the successor)
    with W.Session(world) as s:
        rr = s.gwf(["run"])
        w_run = s.snapshot()
    acc.extra["invocations"] += 1
    if rr.exit_code != 0 or rr.crashed():
        viol("C05", "run failed", rr.as_dict())
        return None
    conns = conn_lines(world, w_run)
    enq = [l for c in conns for l in c if l["__kind__"] == "enqueue_task"]
    submitted = sorted(l["name"] for l in enq)
    if would is None or not (would == from_status == submitted):
        sets = [set(from_status), set(would or ()), set(submitted)]
        viol("C05", "status / dry-run / run disagree", dict(from_status=from_status, dry_run=would, run=submitted), blame=set.union(*sets) - set.intersection(*sets))
    # ---- C07: dependency ids in each enqueue
    cur_inc = world.pool["summary"]["incarnation"]
    state_before = {t["name"]: t for t in world.pool["summary"]["tasks"]}
    new_tid = {}
    next_tid = len(world.pool["summary"]["tasks"])
    _, _, rel = CW.cone_names(world, None)
    for l in enq:
        must = []
        for d in sorted(rel["dependencies"].get(l["name"], ())):
            if d in new_tid:
                must.append(new_tid[d])
                continue
            lt = LB.latest_task(world.pool, d)
            if lt is not None and lt[0] == cur_inc:
                st = next((t for t in world.pool["summary"]["tasks"] if t["tid"] == lt[1]), None)
                if st is not None and st["state"] in ("SUBMITTED", "RUNNING"):
                    must.append(lt[1])
        if sorted(l["deps"], key=str) != sorted(must, key=str) or any(not isinstance(x, int) or isinstance(x, bool) for x in l["deps"]):
            viol("C07", "enqueue_task names the wrong prerequisites", dict(target=l["name"], deps=l["deps"], must_wait=must),
                 blame={d for d in rel["dependencies"].get(l["name"], ()) if d in stale} or {l["name"]})
        new_tid[l["name"]] = next_tid
        next_tid += 1
    acc.case(key=None, outcome=f"local rows={sorted(set(rows.values()))} sub={len(submitted)}", nontrivial=False)
    # ---- C17: cancel
    if "C17" in props:
        for label, args in (("all", ["-f"]), ("one", [wf.names()[0]]), ("pat", ["[BCX]*"]), ("two", [wf.names()[0], wf.names()[-1]]), ("overlap", ["[AB]*", wf.names()[0]])):
            sel = set(wf.names()) if args == ["-f"] else {n for p in args for n in wf.names() if fnmatch.fnmatchcase(n, p)}
            with W.Session(world) as s:
                rc = s.gwf(["cancel"] + args)
                w_c = s.snapshot()
                rs = s.gwf(["status"])
            acc.extra["invocations"] += 2
            reqs = [l for c in conn_lines(world, w_c)[:1] for l in c if l["__kind__"] == "cancel_task"]
            want = sorted(tracked[n] for n in sel if n in tracked)
            got = sorted(l["tid"] for l in reqs)
            if rc.crashed() or rc.exit_code != 0 or got != want:
                viol("C17", "cancel requests differ from the tracked latest tasks of the selected targets", dict(args=args, requests=got, expected=want, exc=rc.exc), sel=label)
            rows_c = W.parse_status(rs.stdout) if rs.exit_code == 0 else {}
            pl_c = CW.ref_plan(w_c)
            # a selected target whose own latest task was live before must not be live afterwards (judged on the pool's true table,
            # not on gwf's rows, so that id aliasing after a restart — a known finding — cannot hide a lost cancel request)
            still = []
            for n in sel:
                lt = LB.latest_task(world.pool, n)
                if lt is None or lt[0] != world.pool["summary"]["incarnation"] or tracked.get(n) != lt[1]:
                    continue
                st_after = next((t["state"] for t in w_c.pool["summary"]["tasks"] if t["tid"] == lt[1]), None)
                if st_after in ("SUBMITTED", "RUNNING"):
                    still.append(n)
            if still:
                viol("C17", "a selected target's own live task survived the cancel", dict(args=args, still=sorted(still), requests=got, pool=w_c.pool["summary"]["tasks"]), sel=label)
            elif rows_c != pl_c["status"]:
                viol("C17", "rows wrong after cancel", dict(args=args, rows=rows_c, expected=pl_c["status"], pool=w_c.pool["summary"]["tasks"], aliased=alias_info(world)), sel=label,
                     blame=blame_roots(k for k in pl_c["status"] if rows_c.get(k) != pl_c["status"][k]))
            # nobody else's task was cancelled
            before = {t["tid"]: t["state"] for t in world.pool["summary"]["tasks"]}
            afterst = {t["tid"]: (t["state"], t["name"]) for t in w_c.pool["summary"]["tasks"]}
            collateral = sorted(name for tid, (st, name) in afterst.items() if st == "CANCELLED" and before.get(tid) != "CANCELLED" and name not in sel
                                and not _downstream_of(rel, name, sel))
            # ... nor touched in any other way: no process exit or timer is delivered during the command, so the state, the process and
            # the worker of every task that was not selected (and is not downstream of a selected one) are exactly what they were
            full_before = {t["tid"]: (t["state"], t["alive"], t["killed"], t["done"]) for t in world.pool["summary"]["tasks"]}
            touched = sorted(t["name"] for t in w_c.pool["summary"]["tasks"] if t["tid"] in full_before and (t["state"], t["alive"], t["killed"], t["done"]) != full_before[t["tid"]]
                             and t["name"] not in sel and not _downstream_of(rel, t["name"], sel) and t["name"] not in collateral
                             and t["tid"] not in got)
            if touched:
                viol("C17", "cancel disturbed the task of a target that was not selected", dict(args=args, touched=touched, before=world.pool["summary"]["tasks"], after=w_c.pool["summary"]["tasks"]), sel=label,
                     blame=set(touched))
            if collateral:
                # blame the selected targets whose (stale) tracked id is the id of the task that was hit
                hit_ids = {tid for tid, (st, name) in afterst.items() if name in collateral and st == "CANCELLED" and before.get(tid) != "CANCELLED"}
                viol("C17", "cancel hit a task of a target that was not selected", dict(args=args, collateral=collateral, tracked=tracked, pool=world.pool["summary"]["tasks"], aliased=alias_info(world)), sel=label,
                     blame={n for n in sel if tracked.get(n) in hit_ids} or set(collateral))
    return w_run


def _downstream_of(rel, name, sel):
    """a dependent of a cancelled task is cancelled by the pool itself (C11) — that is not collateral damage"""
    stack, seen = [name], set()
    while stack:
        n = stack.pop()
        if n in seen:
            continue
        seen.add(n)
        if n in sel and n != name:
            return True
        stack.extend(rel["dependencies"].get(n, ()))
    return False


def expand(acc, batch, last=False, meta=None, props=("C05", "C07", "C08", "C17"), restart=True):
    for world, trace in batch:
        acc.case(key=e2.world_key(world), outcome=None, nontrivial=True, sample=dict(meta=meta, trace=trace) if len(trace) == 3 else None)
        w_run = probe(acc, world, trace, meta, props)
        if last:
            continue
        succ = []
        if w_run is not None:
            succ.append((("gwf", ["run"]), w_run))
        names = world.wf.names()
        for extra in (["run", names[1]], ["run", names[-1]]):
            w2, res = CW.apply_action(world, ("gwf", extra))
            if res.exit_code == 0:
                succ.append((("gwf", extra), w2))
        for a in CW.enabled_env(world):
            succ.append((a, CW.apply_action(world, a)[0]))
        if restart and world.pool["summary"]["tasks"] and sum(1 for a in trace if a[0] == "prestart") < 1:
            succ.append((("prestart",), CW.apply_action(world, ("prestart",))[0]))
        succ.append((("modify", "src"), CW.apply_action(world, ("modify", "src"))[0]))
        for a, w2 in succ:
            w2.normalize()
            acc.out.append((e2.world_key(w2), w2, trace + [list(a)]))


def replay(case):
    from mc.runner import Acc

    meta = case["meta"]
    w = CW.init_world(meta["wf"], "local")
    for a in case["trace"]:
        a = tuple(a) if a[0] != "gwf" else ("gwf", a[1])
        w, _ = CW.apply_action(w, a)
        w.normalize()
    acc = Acc()
    probe(acc, w, case["trace"], meta, (case.get("prop") or "C05", "C07", "C08", "C17") if not case.get("prop") else (case["prop"],))
    return acc.violations


def run_local(ctx, module, prop, configs):
    """BFS for the local backend; only violations of `prop` are recorded."""
    done = []
    for wfname, depth in configs:
        meta = dict(wf=wfname, backend="local")
        w0 = CW.init_world(wfname, "local")
        inits = [w0]
        if prop == "C17":
            # also start from a history in which the first-defined target holds a high id of a previous pool incarnation
            w = w0
            first = w.wf.names()[0]
            prefix = (("gwf", ["run"]), ("penv", "exit", first, 1), ("gwf", ["run"]), ("prestart",))
            for a in prefix:
                w, _ = CW.apply_action(w, a)
                w.normalize()
            inits.append((w, [list(a) for a in prefix]))
        e2.bfs(ctx, module, "local_expand", inits, depth, chunk=2, meta=meta, props=(prop,))
        done.append(dict(meta, depth=depth))
    return done
