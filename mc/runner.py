"""Common runner for all checks: tiers, seeds, parallel map, evidence, replays, known findings.

Every check module in mc/checks/ exposes

    ID      = "C01"
    LEVEL   = "exploration" | "model_checking" | "fault_enumeration"
    def run(ctx): ...                 # enumerate, call ctx.* to record
    def replay(case) -> list[dict]    # re-execute ONE recorded case without the explorer;
                                      # returns the violations found for it (empty = does not reproduce)

The runner owns: argument parsing, worker pool, violation de-duplication, the replay-twice
determinism rule, matching against /verif/known_findings.json, the evidence file and the exit code.
"""
from __future__ import annotations

import argparse
import collections
import hashlib
import importlib
import json
import multiprocessing
import os
import random
import shutil
import sys
import tempfile
import time
import traceback

VERIF = os.path.dirname(os.path.dirname(os.path.abspath(__file__)))
REPO = os.environ.get("VERIF_REPO", "/repo")
SCRATCH_ROOT = os.environ.get("VERIF_SCRATCH", "/dev/shm" if os.path.isdir("/dev/shm") else tempfile.gettempdir())
NPROC = int(os.environ.get("VERIF_NPROC", str(min(16, os.cpu_count() or 1))))


def setup_gwf_path():
    """Import gwf from $VERIF_REPO/src (the working tree as it stands, no build step)."""
    src = os.path.join(REPO, "src")
    if src in sys.path:
        sys.path.remove(src)
    sys.path.insert(0, src)
    sys.dont_write_bytecode = True
    import gwf  # noqa

    got = os.path.dirname(os.path.dirname(os.path.abspath(gwf.__file__)))
    if os.path.realpath(got) != os.path.realpath(src):
        raise SystemExit(f"harness error: gwf imported from {got}, expected {src}")


def canon(obj):
    """JSON-able canonical form (sorted sets / dict keys, tuples -> lists)."""
    if isinstance(obj, dict):
        return {str(k): canon(v) for k, v in sorted(obj.items(), key=lambda kv: str(kv[0]))}
    if isinstance(obj, (set, frozenset)):
        return sorted((canon(x) for x in obj), key=lambda x: json.dumps(x, sort_keys=True, default=str))
    if isinstance(obj, (list, tuple)):
        return [canon(x) for x in obj]
    if isinstance(obj, (str, int, float, bool)) or obj is None:
        return obj
    if isinstance(obj, bytes):
        return obj.decode("latin1")
    return repr(obj)


def digest(obj):
    return hashlib.sha1(json.dumps(canon(obj), sort_keys=True).encode()).hexdigest()[:16]


class Scratch:
    """A scratch directory under /dev/shm, removed on exit (and by the pool initialiser's atexit)."""

    def __init__(self, tag):
        self.path = tempfile.mkdtemp(prefix=f"gwf-mc-{tag}-p{os.getpid()}-", dir=SCRATCH_ROOT)

    def cleanup(self):
        shutil.rmtree(self.path, ignore_errors=True)

    def __enter__(self):
        return self.path

    def __exit__(self, *a):
        self.cleanup()


# ------------------------------------------------------------------------------------------------
# Watchdog: code under test that loops for ever must become a finding, not a hung check.


class HangDetected(BaseException):
    """Raised (from a SIGALRM handler) inside whatever is running when no case completed for WATCHDOG_S seconds.
    A BaseException so that `except Exception: continue` loops in the code under test cannot swallow it; the timer repeats and a
    flag is kept in case something (e.g. an asyncio Task) absorbs it anyway."""


HANG_SEEN = []


WATCHDOG_S = float(os.environ.get("VERIF_WATCHDOG_S", "30"))


def _on_alarm(signum, frame):
    import traceback as _tb

    HANG_SEEN.append("".join(_tb.format_stack(frame)[-6:]))
    raise HangDetected(f"no progress for {WATCHDOG_S:.0f}s (code under test does not terminate?)")


def arm_watchdog():
    import signal

    try:
        signal.signal(signal.SIGALRM, _on_alarm)
        signal.setitimer(signal.ITIMER_REAL, WATCHDOG_S, WATCHDOG_S)
    except ValueError:  # not in the main thread
        pass


def disarm_watchdog():
    import signal

    try:
        signal.setitimer(signal.ITIMER_REAL, 0)
    except ValueError:
        pass


# ------------------------------------------------------------------------------------------------
# Worker-side accumulation


class Acc:
    """What a worker (or the main process) accumulates for a batch of cases."""

    MAX_VIOL_PER_SIG = 3

    def __init__(self):
        self.evaluations = 0
        self.nontrivial = set()  # digests of distinct non-trivial cases (or keys)
        self.outcomes = collections.Counter()
        self.violations = []  # dicts
        self.viol_count = collections.Counter()  # sigkey -> count
        self.samples = []
        self.extra = collections.Counter()  # any further named counters
        self.sets = collections.defaultdict(set)  # named sets (e.g. states)
        self.out = []  # generic results handed back to the main process (e.g. successor states)

    def tick(self):
        """Progress that is not a countable case (one execution of an exploration whose cases are counted elsewhere): restart the hang timer."""
        if HANG_SEEN:
            raise HangDetected("a hang was interrupted by the watchdog and absorbed by the code under test; stack then:\n" + HANG_SEEN[0])
        arm_watchdog()

    def case(self, key=None, outcome=None, nontrivial=True, sample=None):
        if HANG_SEEN:  # an earlier hang was interrupted but absorbed by the code under test (e.g. inside an asyncio Task)
            raise HangDetected("a hang was interrupted by the watchdog and absorbed by the code under test; stack then:\n" + HANG_SEEN[0])
        arm_watchdog()  # progress: restart the hang timer
        self.evaluations += 1
        if nontrivial and key is not None:
            if not isinstance(key, (str, int)):
                try:
                    key = hash(key)  # PYTHONHASHSEED is pinned by ./check, so this is reproducible
                except TypeError:
                    key = digest(key)
            self.nontrivial.add(key)
        if outcome is not None:
            self.outcomes[outcome if isinstance(outcome, str) else json.dumps(canon(outcome), sort_keys=True)] += 1
        if sample is not None and len(self.samples) < 3:
            self.samples.append(canon(sample))

    def violation(self, sig, case, expected=None, observed=None, msg=""):
        """sig: small dict identifying the *kind* of failing case (used for known-finding matching and
        de-duplication); case: everything replay() needs."""
        sk = json.dumps(canon(sig), sort_keys=True)
        self.viol_count[sk] += 1
        if self.viol_count[sk] <= self.MAX_VIOL_PER_SIG:
            self.violations.append(
                dict(sig=canon(sig), case=canon(case), expected=canon(expected), observed=canon(observed), msg=msg)
            )

    def merge(self, other: "Acc"):
        self.evaluations += other.evaluations
        self.nontrivial |= other.nontrivial
        self.outcomes.update(other.outcomes)
        for sk, n in other.viol_count.items():
            self.viol_count[sk] += n
        have = collections.Counter(json.dumps(v["sig"], sort_keys=True) for v in self.violations)
        for v in other.violations:
            sk = json.dumps(v["sig"], sort_keys=True)
            if have[sk] < self.MAX_VIOL_PER_SIG:
                self.violations.append(v)
                have[sk] += 1
        for s in other.samples:
            if len(self.samples) < 6:
                self.samples.append(s)
        self.extra.update(other.extra)
        for k, v in other.sets.items():
            self.sets[k] |= v
        self.out.extend(other.out)


_WORKER_STATE = {}


def _worker_init(repo, seed):
    os.environ["VERIF_REPO"] = repo
    global REPO
    REPO = repo
    setup_gwf_path()
    _WORKER_STATE["seed"] = seed
    import atexit

    def _cleanup():
        for s in _WORKER_STATE.get("scratch", []):
            s.cleanup()

    atexit.register(_cleanup)


def worker_scratch(tag="w"):
    """One scratch dir per worker process, created lazily, removed at exit."""
    key = "scratch_" + tag
    if key not in _WORKER_STATE or _WORKER_STATE.get("pid") != os.getpid():
        s = Scratch(tag)
        _WORKER_STATE.setdefault("scratch", []).append(s)
        _WORKER_STATE[key] = s.path
        _WORKER_STATE["pid"] = os.getpid()
    return _WORKER_STATE[key]


from mc.errors import SetupFailed  # noqa: E402 (one class object whether this file runs as __main__ or is imported as mc.runner)


def _raised_in_gwf(e):
    frames = traceback.extract_tb(e.__traceback__)
    return bool(frames) and os.path.realpath(frames[-1].filename).startswith(os.path.realpath(os.path.join(REPO, "src")) + os.sep)


def crash_violation(acc, modname, funcname, item, kw, e, tb):
    try:
        item_j = json.loads(json.dumps(canon(item)))
        kw_j = json.loads(json.dumps(canon(kw)))
    except Exception:
        item_j, kw_j = None, None
    acc.violation(sig=dict(what="exception escaped from the code under test", exc=type(e).__name__, function=funcname),
                  case=dict(crash=True, module=modname, function=funcname, item=item_j, kw=kw_j), observed=tb[-1500:],
                  msg=f"{funcname}({json.dumps(item_j, default=str)[:300]}): {type(e).__name__}: {str(e)[:200]} raised inside gwf: {tb[-500:]}")


def _tuplify(x):
    return tuple(_tuplify(y) for y in x) if isinstance(x, list) else x


def replay_crash(case):
    a = Acc()
    if case.get("item") is None:
        return a.violations
    mod = importlib.import_module(case["module"])
    func = getattr(mod, case["function"])
    try:
        func(Acc(), [_tuplify(case["item"])], **(case.get("kw") or {}))
    except Exception as e:
        if _raised_in_gwf(e):
            crash_violation(a, case["module"], case["function"], _tuplify(case["item"]), case.get("kw") or {}, e, traceback.format_exc())
        else:
            raise
    return a.violations


def setup_violation(acc, e):
    acc.violation(sig=dict(what="a command that prepares the scenario failed", why=e.why[:60]), case=dict(kind="setup", recipe=e.recipe), observed=e.result,
                  msg=f"scenario set-up {json.dumps(e.recipe, default=str)[:300]}: {e.why}: {json.dumps(e.result, default=str)[:400]}")


def replay_any(mod, case):
    if isinstance(case, dict) and case.get("crash"):
        return replay_crash(case)
    if isinstance(case, dict) and case.get("kind") == "setup":
        from mc import cliworld

        a = Acc()
        try:
            cliworld.build(**case["recipe"])
        except SetupFailed as e:
            setup_violation(a, e)
        return a.violations
    try:
        return mod.replay(case)
    except SetupFailed as e:
        a = Acc()
        setup_violation(a, e)
        return a.violations
    except Exception as e:
        if not _raised_in_gwf(e):
            raise
        a = Acc()
        a.violation(sig=dict(what="exception escaped from the code under test", exc=type(e).__name__, function="replay"), case=case, observed=traceback.format_exc()[-1500:],
                    msg=f"replay: {type(e).__name__}: {str(e)[:200]} raised inside gwf")
        return a.violations


def _run_batch(args):
    modname, funcname, batch, kw = args
    mod = importlib.import_module(modname)
    func = getattr(mod, funcname)
    acc = Acc()
    del HANG_SEEN[:]
    arm_watchdog()
    try:
        func(acc, batch, **kw)
        if HANG_SEEN:
            raise HangDetected("a hang was interrupted by the watchdog and absorbed by the code under test; stack then:\n" + HANG_SEEN[0])
    except HangDetected as e:
        tb = traceback.format_exc()
        acc.violation(sig=dict(what="hang (watchdog)"), case=dict(hang=True, function=funcname, batch_head=canon(batch[:1])), observed=tb[-1500:],
                      msg=f"{funcname}: {e}; innermost frames: {tb[-600:]}")
    except SetupFailed as e:
        setup_violation(acc, e)
    except Exception as e:
        if not _raised_in_gwf(e):
            return ("error", traceback.format_exc(), None)
        # an exception escaped from the code under test through a direct (function-level) call: a finding, not a harness problem.
        # Find the item of the batch that triggers it so that the case replays alone.
        tb = traceback.format_exc()
        culprit = None
        for item in batch:
            try:
                func(Acc(), [item], **kw)
            except Exception as e2_:
                if _raised_in_gwf(e2_):
                    culprit = item
                    break
        crash_violation(acc, modname, funcname, culprit if culprit is not None else batch[0], kw, e, tb)
    finally:
        disarm_watchdog()
    return ("ok", None, acc)


# ------------------------------------------------------------------------------------------------


def sweep_stale_scratch():
    """Remove scratch directories left behind by checks that were killed (their owner pid is in the name and is dead)."""
    import re

    try:
        names = os.listdir(SCRATCH_ROOT)
    except OSError:
        return
    for n in names:
        m = re.match(r"gwf-(?:mc|mut|seed)-.*?-p(\d+)-", n)
        if n.startswith(("gwf-mc-", "gwf-mut-", "gwf-seed-")) and m and not os.path.exists(f"/proc/{m.group(1)}"):
            shutil.rmtree(os.path.join(SCRATCH_ROOT, n), ignore_errors=True)


class Ctx:
    def __init__(self, check_id, level, tier, seed):
        self.id = check_id
        self.level = level
        self.tier = tier
        self.seed = seed
        self.acc = Acc()
        self.t0 = time.time()
        self.rule = ""
        self.bound = {}
        self.assumptions = []
        self.exhaustive = True
        self.caps = []
        self.traces_validated = 0
        self.notes = {}
        self._pool = None
        self.rng = random.Random(seed)

    # -- parallel map -----------------------------------------------------------------------
    def pool(self):
        if self._pool is None:
            mpctx = multiprocessing.get_context("fork")
            self._pool = mpctx.Pool(NPROC, initializer=_worker_init, initargs=(REPO, self.seed))
        return self._pool

    def pmap(self, module, funcname, items, chunk=None, **kw):
        """Run module.funcname(acc, batch, **kw) over batches of `items` on the worker pool and merge
        the accumulators. VERIF_SEED only permutes the order batches are visited in."""
        items = list(items)
        if not items:
            return
        if os.environ.get("VERIF_TIMING"):
            _t0 = time.time()
            import atexit  # noqa: F401

            def _report(_f=funcname, _n=len(items), _t=_t0):
                print(f"TIMING {_f} items={_n} started_at={_t - self.t0:.1f}s", flush=True)

            _report()
        if chunk is None:
            chunk = max(1, len(items) // (NPROC * 8))
        batches = [items[i : i + chunk] for i in range(0, len(items), chunk)]
        self.rng.shuffle(batches)
        modname = module if isinstance(module, str) else module.__name__
        if NPROC <= 1 or len(batches) == 1:
            for b in batches:
                st, err, acc = _run_batch((modname, funcname, b, kw))
                if st != "ok":
                    raise RuntimeError("harness error in worker:\n" + err)
                self.acc.merge(acc)
            return
        for st, err, acc in self.pool().imap_unordered(_run_batch, [(modname, funcname, b, kw) for b in batches]):
            if st != "ok":
                raise RuntimeError("harness error in worker:\n" + err)
            self.acc.merge(acc)

    def close(self):
        if self._pool is not None:
            self._pool.close()
            self._pool.join()
            self._pool = None


def load_known_findings():
    path = os.path.join(VERIF, "known_findings.json")
    if not os.path.exists(path):
        return [], []
    with open(path) as f:
        data = json.load(f)
    return data.get("findings", []), data.get("fixed", [])


def match_finding(prop, sig, findings):
    for f in findings:
        if f.get("property") != prop:
            continue
        m = f.get("match", {})
        if all(sig.get(k) == v for k, v in m.items()):
            return f
    return None


def finish(ctx: Ctx, mod):
    """Triage violations (replay twice, known findings), write evidence and replays, return exit code."""
    acc = ctx.acc
    findings, _fixed = load_known_findings()
    real, known = [], []
    for v in acc.violations:
        f = match_finding(ctx.id, v["sig"], findings)
        (known if f else real).append((v, f))

    # determinism rule: re-execute the first real violating case twice
    recheck = [v for v, _ in real if v["sig"].get("what") != "hang (watchdog)" and "hang" not in json.dumps(v.get("observed"))[:200].lower()]
    if recheck and hasattr(mod, "replay") and os.environ.get("VERIF_NO_RECHECK") != "1":
        v = recheck[0]
        try:
            import re

            def _scrub(x):  # scratch directory names differ between runs by construction
                return json.loads(re.sub(r"/dev/shm/gwf-mc-[A-Za-z0-9_-]+(/p\d+_\d+)?", "<scratch>", json.dumps(canon(x))))

            reps = []
            for _ in range(2):
                reps.append(_scrub(replay_any(mod, v["case"])))
            if reps[0] != reps[1]:
                # not bit-identical: the only source of nondeterminism the harness does not own is the iteration order of
                # address-hashed sets of Target objects inside gwf (DESIGN §1). Accept if the violation keeps reproducing.
                for _ in range(3):
                    reps.append(_scrub(replay_any(mod, v["case"])))
            r1 = reps[0]
        except Exception:
            print("HARNESS-ERROR: replay of violating case raised:\n" + traceback.format_exc())
            return 2
        nrep = sum(1 for r in reps if r)
        if nrep == 0 and ctx.notes.get("nondeterministic_code"):
            print("NOTE: the first violating execution did not reproduce in 5 replays; the code under test was observed not to be a function of the "
                  "schedule during exploration (replay divergences), so the violation found there is reported as it was recorded")
        elif nrep == 0:
            # Try further recorded cases (distinct signatures first) before giving up on reproduction.
            others, seen_sig = [], {json.dumps(v["sig"], sort_keys=True)}
            for w_ in recheck[1:]:
                k_ = json.dumps(w_["sig"], sort_keys=True)
                if k_ not in seen_sig:
                    seen_sig.add(k_)
                    others.append(w_)
            reproduced = False
            try:
                for w_ in others[:3] + recheck[1:3]:
                    if any(replay_any(mod, w_["case"]) for _ in range(3)):
                        reproduced = True
                        break
                if not reproduced:
                    for _ in range(5):
                        if replay_any(mod, v["case"]):
                            reproduced = True
                            break
            except Exception:
                print("HARNESS-ERROR: replay of violating case raised:\n" + traceback.format_exc())
                return 2
            ctx.notes["first_violation_not_reproduced"] = True
            if reproduced:
                print("NOTE: the first violating case did not reproduce when replayed alone, another recorded case (or a later replay) did; the code under test is "
                      "not a deterministic function of what this harness controls (threads, wall clock?) — violations are reported as recorded")
            else:
                # On the pinned tree every check is silent and every replay is deterministic (selftest_seeds.json). A violation that was observed
                # during exploration but cannot be reproduced means the code under test has become nondeterministic in a way the harness does not
                # own (e.g. it started threads); that observation is still a violation of the property on the execution that showed it.
                print("NOTE: no recorded violating case reproduced when replayed alone (10 attempts): the code under test behaves nondeterministically "
                      "(threads, wall clock?). The violations are reported as they were observed during the exploration; replays may or may not fail.")
        if len(reps) > 2:
            print(f"NOTE: replays of the first violating case are not bit-identical (reproduced {nrep}/{len(reps)} times); "
                  "gwf iterates over address-ordered sets of targets, which the harness cannot pin from outside")

    rdir = os.path.join(VERIF, "replays", ctx.id)
    lines = []
    seen_known = set()
    for v, f in known:
        if f["id"] in seen_known:
            continue
        seen_known.add(f["id"])
        lines.append(f"KNOWN-FINDING: property={ctx.id} {f['id']}: {f['what']}")
    n_real_sigs = 0
    if real:
        os.makedirs(rdir, exist_ok=True)
        seen = set()
        for v, _ in real:
            sk = json.dumps(v["sig"], sort_keys=True)
            if sk in seen:
                continue
            seen.add(sk)
            n_real_sigs += 1
            path = os.path.join(rdir, digest(v["case"]) + ".json")
            with open(path, "w") as fh:
                json.dump(dict(property=ctx.id, **v), fh, indent=1, sort_keys=True)
            lines.append(f"VIOLATION property={ctx.id} replay={path}")
            lines.append(f"  sig={json.dumps(v['sig'], sort_keys=True)} {v['msg']}"[:600])

    # vacuity guard
    vac = None
    if acc.evaluations > 20 and len(acc.outcomes) <= 1 and not ctx.notes.get("single_outcome_ok"):
        vac = f"vacuous exploration: {acc.evaluations} evaluations but {len(acc.outcomes)} distinct outcome(s)"

    wall = time.time() - ctx.t0
    cov = dict(
        evaluations=acc.evaluations,
        distinct_nontrivial=len(acc.nontrivial),
        rule=ctx.rule,
        samples=acc.samples[:6] or [ctx.notes.get("sample", "n/a")],
        exhaustive=bool(ctx.exhaustive and not ctx.caps),
        distinct_outcomes=len(acc.outcomes),
        outcome_histogram=dict(acc.outcomes.most_common(12)),
        bound=ctx.bound,
        caps_hit=ctx.caps,
        counters=dict(acc.extra),
        violations_by_signature={k: n for k, n in acc.viol_count.most_common(20)},
        known_findings_seen=sorted(seen_known),
    )
    if ctx.level == "model_checking":
        cov["states"] = max(1, len(acc.sets.get("states", ())) or acc.extra.get("states", 0))
        cov["transitions"] = max(1, acc.extra.get("transitions", 0))
        cov["traces_validated_against_impl"] = int(ctx.traces_validated or acc.extra.get("traces_validated", 0))
    cov.update(ctx.notes.get("coverage_extra", {}))
    ev = dict(
        property_id=ctx.id,
        tier=ctx.tier,
        seed=ctx.seed,
        level=ctx.level,
        coverage=cov,
        assumptions=ctx.assumptions,
        wall_s=round(wall, 2),
        violations=n_real_sigs,
    )
    os.makedirs(os.path.join(VERIF, "evidence"), exist_ok=True)
    with open(os.path.join(VERIF, "evidence", ctx.id + ".json"), "w") as fh:
        json.dump(ev, fh, indent=1, sort_keys=True)

    for ln in lines:
        print(ln)
    print(
        f"[{ctx.id} {ctx.tier} seed={ctx.seed}] evaluations={acc.evaluations} distinct_nontrivial={len(acc.nontrivial)} "
        f"outcomes={len(acc.outcomes)} "
        + (f"states={cov.get('states')} transitions={cov.get('transitions')} validated={cov.get('traces_validated_against_impl')} " if ctx.level == "model_checking" else "")
        + f"violations={n_real_sigs} known={len(seen_known)} wall={wall:.1f}s bound={json.dumps(ctx.bound)}"
    )
    if vac:
        print("HARNESS-ERROR: " + vac)
        return 2
    return 1 if real else 0


def main(argv=None):
    ap = argparse.ArgumentParser(prog="check")
    ap.add_argument("id")
    ap.add_argument("--tier", default=os.environ.get("VERIF_TIER", "quick"), choices=["quick", "thorough"])
    ap.add_argument("--replay", default=None)
    ap.add_argument("--as-test", action="store_true", help="with --replay: print a stand-alone pytest function")
    args = ap.parse_args(argv)
    seed = int(os.environ.get("VERIF_SEED", "0") or 0)
    os.environ.setdefault("PYTHONHASHSEED", "0")
    setup_gwf_path()
    mod = importlib.import_module(f"mc.checks.{args.id.lower()}")

    if args.replay:
        with open(args.replay) as fh:
            rec = json.load(fh)
        if args.as_test:
            print(as_test(args.id, rec))
            return 0
        res = replay_any(mod, rec["case"])
        if res:
            for r in res:
                print("REPRODUCED:", json.dumps(canon(r), sort_keys=True)[:3000])
            print(f"VIOLATION property={args.id} replay={os.path.abspath(args.replay)}")
            return 1
        print("not reproduced on this tree")
        return 0

    sweep_stale_scratch()
    ctx = Ctx(args.id, mod.LEVEL, args.tier, seed)
    shutil.rmtree(os.path.join(VERIF, "replays", args.id), ignore_errors=True)
    try:
        try:
            mod.run(ctx)
        except SetupFailed as e:
            setup_violation(ctx.acc, e)
        rc = finish(ctx, mod)
    except Exception:
        print("HARNESS-ERROR: " + traceback.format_exc())
        rc = 2
    finally:
        ctx.close()
    return rc


def as_test(cid, rec):
    return f'''# stand-alone replay of a recorded violation of {cid}; run with: PYTHONPATH=/verif /venv/bin/python -m pytest <this file>
import json
from mc import runner
runner.setup_gwf_path()
from mc.checks import {cid.lower()} as chk

CASE = json.loads({json.dumps(json.dumps(rec["case"]))})

def test_replay_{cid.lower()}():
    assert runner.replay_any(chk, CASE) == [], "violation reproduces"
'''


if __name__ == "__main__":
    sys.exit(main())
