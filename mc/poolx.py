"""E3 — deviation-bounded exhaustive schedule exploration of gwf.backends.local.Scheduler / Server on the virtual loop.

A *scenario* fixes cores, the task DAG, per-task time limits / exit-code alphabets / payloads / start failures and the
script of client operations.  An *execution* is a sequence of choices at loop-iteration boundaries:
   step            run the callbacks that were ready at the start of the iteration
   exit(p, code)   the environment delivers the exit of live fake process p
   timer           the virtual clock jumps to the next deadline
   op              the client issues its next scripted operation (enqueue / cancel; API call or bytes on a connection)
Default: step while callbacks are ready; at quiescence branch over all enabled environment actions (free).  A *deviation* is
an environment action delivered while callbacks are still pending; executions with <= D deviations are enumerated.
Executions always run to the horizon (all ops issued, all processes exited, all timers fired, queue empty).
Monitors (C11/C12/C13) observe every event and every state; the final oracle is mc.ref.pool.
"""
from __future__ import annotations

import asyncio
import json
import os

from mc import vloop
from mc.ref import pool as RP

FINAL = ("COMPLETED", "FAILED", "CANCELLED", "KILLED")


def coro_pos(task):
    """Position of a task's coroutine: chain of (code name, f_lasti) through cr_await."""
    if task.done():
        if task.cancelled():
            return ("done", "cancelled")
        return ("done", type(task.exception()).__name__ if task.exception() else "ok")
    pos = []
    c = task.get_coro()
    seen = 0
    while c is not None and seen < 12:
        seen += 1
        fr = getattr(c, "cr_frame", None) or getattr(c, "gi_frame", None)
        if fr is not None:
            pos.append((fr.f_code.co_name, fr.f_lasti))
        c = getattr(c, "cr_await", None) or getattr(c, "gi_yieldfrom", None)
    return tuple(pos) + (("must_cancel", bool(task._must_cancel)),)


class Exec:
    """One execution of a scenario under a choice sequence."""

    def __init__(self, sc, scratch):
        from gwf.backends import local

        self.local = local
        self.sc = sc
        self.n = len(sc["tasks"])
        self.scratch = scratch
        self.world = vloop.PoolWorld(start_failures={f"t{i}" for i in sc.get("start_fail", ())}, stubborn={f"t{i}" for i, t in enumerate(sc["tasks"]) if t.get("stubborn")}, start_exc=sc.get("start_exc", "oserror"),
                                     payloads={f"t{i}": p for i, p in sc.get("payloads", {}).items()})
        self.loop = self.world.loop
        self.violations = []  # (property, what, detail)
        self.facts = {i: dict(spawns=0, exit=None, cancel_nonfinal=False, cancel_after_exit0=False, killed=False, kill_after_exit=False, start_failure=False,
                              alive_at_cancel=False, timer_during_run=False) for i in range(self.n)}
        self.op_i = 0
        self.op_task = None
        self.tids = {}  # scenario index -> tid (truth, recorded at enqueue)
        self.issued = []
        self.clients = []
        self.cancel_named = []  # ids clients literally asked to cancel
        self.acked = []  # task ids the server has acknowledged (task_enqueued written), in order
        self.trace = []
        self.final_seen = {}
        self.max_live = 0
        self.world.listeners.append(self._on_event)
        self._setup()

    # ------------------------------------------------------------------
    def _setup(self):
        sc = self.sc
        wd = self.scratch
        logs = os.path.join(wd, ".gwf", "logs")
        if sc.get("log_fail") is True:
            import shutil

            shutil.rmtree(os.path.join(wd, ".gwf"), ignore_errors=True)
        else:
            os.makedirs(logs, exist_ok=True)
            import shutil

            for f in os.listdir(logs):
                q = os.path.join(logs, f)
                shutil.rmtree(q) if os.path.isdir(q) else os.remove(q)
            for i in sc.get("log_fail") or ():
                os.mkdir(os.path.join(logs, f"t{i}.stdout"))  # the log of task i cannot be written (a directory is in the way)
        facts = self.facts
        me = self

        class MonSched(self.local.Scheduler):
            async def enqueue_task(self, name, script, working_dir, time_limit, deps):
                tid = await super().enqueue_task(name=name, script=script, working_dir=working_dir, time_limit=time_limit, deps=deps)
                if isinstance(name, str) and name[:1] == "t" and name[1:].isdigit():
                    me.tids[int(name[1:])] = tid
                    me.issued.append(tid)
                return tid

            async def cancel_task(self, tid):
                idx = me._idx_of_tid(tid)
                if me.clients and not any(type(x) is type(tid) and x == tid for x in me.cancel_named):
                    idx = None  # no client asked for this id to be cancelled: whatever happens to the task is not its owner's doing
                if idx is not None:
                    st = self.task_states.get(tid)
                    name = st.name if st is not None else None
                    if name in ("SUBMITTED", "RUNNING"):
                        facts[idx]["cancel_nonfinal"] = True
                        if facts[idx]["exit"] == 0:
                            facts[idx]["cancel_after_exit0"] = True
                        if any(p.alive and p.tag == f"t{idx}" for p in me.world.procs):
                            facts[idx]["alive_at_cancel"] = True
                return await super().cancel_task(tid)

        import logging

        logging.getLogger("gwf.backends.local").disabled = True  # the pool logs tracebacks of failing tasks; not an oracle
        self.world.__enter__()
        self.sched = self.loop.do(MonSched, wd, sc["cores"])
        if sc.get("clients"):
            self.server = self.local.Server(self.sched)
            for c in sc["clients"]:
                reader = self.loop.do(lambda: asyncio.StreamReader(limit=2**16, loop=self.loop))
                writer = vloop.FakeWriter(fail_drain=c.get("fail_drain", False), block_drain=c.get("block_drain", False))
                writer.snapshots = []
                handler = self.loop.do(self.loop.create_task, self.server.handle_connection(reader, writer))
                self.clients.append(dict(name=c["name"], ops=c["ops"], after=c.get("after"), i=0, reader=reader, writer=writer, handler=handler, healthy=c.get("healthy", False), expect=0, parsed=0, enq_order=[]))
                orig_write = writer.write

                writer.acked_snaps = []

                def write(b, writer=writer, orig_write=orig_write):
                    writer.snapshots.append({str(k): v.name for k, v in self.sched.task_states.items()})
                    writer.acked_snaps.append(list(self.acked))  # ids acknowledged to some client before this answer was written
                    try:
                        m = json.loads(b)
                        if isinstance(m, dict) and m.get("__kind__") == "task_enqueued":
                            self.acked.append(m.get("tid"))
                    except ValueError:
                        pass
                    orig_write(b)

                writer.write = write
        elif sc.get("via") == "server":
            self.server = self.local.Server(self.sched)
            self.reader = self.loop.do(lambda: asyncio.StreamReader(limit=2**16, loop=self.loop))
            self.writer = vloop.FakeWriter()
            self.handler = self.loop.do(self.loop.create_task, self.server.handle_connection(self.reader, self.writer))

    def close(self):
        self.world.__exit__()

    def _idx_of_tid(self, tid):
        for i, t in self.tids.items():
            if t == tid:
                return i
        return None

    # ------------------------------------------------------------------ monitors on events
    def _on_event(self, kind, proc, *a):
        idx = int(proc.tag[1:])
        f = self.facts[idx]
        if kind == "spawn":
            f["spawns"] += 1
            if f["spawns"] > 1:
                self.violations.append(("C13", "task spawned twice", dict(task=idx)))
            if self.sc["tasks"][idx].get("extra_deps"):
                self.violations.append(("C11", "task started although it depends on an id the pool never issued", dict(task=idx, deps=list(self.sc["tasks"][idx]["extra_deps"]))))
            # C11: every dependency finished with exit status 0 and is COMPLETED
            for d in self.sc["tasks"][idx]["deps"]:
                df = self.facts[d]
                dstate = self.state_name(d)
                if df["exit"] != 0 or dstate != "COMPLETED":
                    self.violations.append(("C11", "task started although a dependency has not completed successfully",
                                            dict(task=idx, dep=d, dep_exit=df["exit"], dep_state=dstate)))
                elif df["killed"] and not df["cancel_nonfinal"] and not self.sc.get("kill_race"):
                    # the pool itself killed the dependency (time limit): whatever its shell had returned, it did not complete
                    self.violations.append(("C11", "task started although a dependency was killed for exceeding its time limit",
                                            dict(task=idx, dep=d, dep_exit=df["exit"], dep_state=dstate)))
                elif df["cancel_nonfinal"] and not df["cancel_after_exit0"]:
                    # the dependency was cancelled while it had not finished (the pool said CANCELLED at that instant): whatever
                    # its process did afterwards, its dependents must not run
                    self.violations.append(("C11", "task started although a dependency was cancelled before it finished",
                                            dict(task=idx, dep=d, dep_exit=df["exit"], dep_state=dstate)))
            live = [p.tag for p in self.world.live() if not p.killed]  # SIGTERM may be ignored; SIGKILL may not
            self.max_live = max(self.max_live, len(live))
            if len(live) > self.sc["cores"]:
                self.violations.append(("C12", "more live task processes than cores", dict(live=live, cores=self.sc["cores"])))
        elif kind == "exit":
            f["exit"] = a[0]
        elif kind == "kill":
            f["killed"] = True

    def state_name(self, idx):
        tid = self.tids.get(idx)
        st = self.sched.task_states.get(tid) if tid is not None else None
        return st.name if st is not None else None

    # ------------------------------------------------------------------ actions
    def enabled(self):
        """Canonical order: step first (if callbacks are ready), then exits by pid and code, timer, op."""
        acts = []
        if self.loop.n_ready():
            acts.append(("step",))
        for p in self.world.live():
            idx = int(p.tag[1:])
            if p.killed or p.terminated:
                codes = (-9,) + ((0,) if self.sc.get("kill_race") else ())
            else:
                codes = self.sc["tasks"][idx].get("codes", (0,))
            for c in codes:
                acts.append(("exit", p.pid, c))
        if self.loop.next_deadline() is not None:
            acts.append(("timer",))
        if self.clients:
            for k, c in enumerate(self.clients):
                if c["i"] < len(c["ops"]):
                    after = c.get("after")
                    if after is not None and any(o["name"] == after and o["i"] < len(o["ops"]) for o in self.clients):
                        continue  # a late client: connects once the other one has said everything
                    if c["healthy"] and len(c["writer"].lines()) < c["expect"]:
                        continue  # gwf's real Client is synchronous: it waits for each answer before the next request
                    acts.append(("cop", k))
            return acts
        if self.op_i < len(self.sc["ops"]) and (self.sc.get("via") == "server" or self.op_task is None or self.op_task.done()):
            acts.append(("op",))
        return acts

    def apply(self, act):
        self.trace.append(act)
        k = act[0]
        if k == "step":
            self.loop.step()
        elif k == "exit":
            p = next(p for p in self.world.procs if p.pid == act[1])
            self.loop.do(p.deliver_exit, act[2])
        elif k == "timer":
            for p in self.world.live():
                self.facts[int(p.tag[1:])]["timer_during_run"] = True
            self.loop.fire_timer()
        elif k == "op":
            self._issue_op()
        elif k == "cop":
            self._issue_client_op(act[1])
        self._after_state()

    def _issue_op(self):
        op = self.sc["ops"][self.op_i]
        self.op_i += 1
        sc = self.sc
        if op[0] == "enq":
            i = op[1]
            t = sc["tasks"][i]
            deps = [self.tids.get(d, 900 + d) for d in t["deps"]] + list(t.get("extra_deps", ()))
            if sc.get("via") == "server":
                msg = dict(__kind__="enqueue_task", name=f"t{i}", script=f"run t{i}", time_limit=t.get("time_limit"), working_dir=self.scratch, deps=deps)
                self.tids[i] = self._predict_tid()
                self.loop.do(self.reader.feed_data, (json.dumps(msg) + "\n").encode())
            else:
                async def drv(i=i, deps=deps, t=t):
                    tid = await self.sched.enqueue_task(name=f"t{i}", script=f"run t{i}", working_dir=self.scratch, time_limit=t.get("time_limit"), deps=deps)
                    self.tids[i] = tid

                self.tids[i] = self._predict_tid()
                self.op_task = self.loop.do(self.loop.create_task, drv())
        elif op[0] == "cancel":
            i = op[1]
            tid = self.tids.get(i, 900 + i)  # cancelling a task that was never enqueued = unknown id
            if sc.get("via") == "server":
                self.loop.do(self.reader.feed_data, (json.dumps(dict(__kind__="cancel_task", tid=tid)) + "\n").encode())
            else:
                async def drv(tid=tid):
                    await self.sched.cancel_task(tid)

                self.op_task = self.loop.do(self.loop.create_task, drv())
        elif op[0] == "shutdown":
            # the pool is shut down while tasks wait or run: every one of them is cancelled by the pool and must end final
            for i, tid in self.tids.items():
                st = self.sched.task_states.get(tid)
                if st is not None and st.name in ("SUBMITTED", "RUNNING"):
                    self.facts[i]["cancel_nonfinal"] = True
                    if self.facts[i]["exit"] == 0:
                        self.facts[i]["cancel_after_exit0"] = True
                    elif self.facts[i]["exit"] is not None:
                        self.facts[i]["shutdown_after_failed_exit"] = True  # its process had already failed: the shutdown cancels a worker that is about to record that

            async def drv():
                await self.sched.shutdown()

            self.op_task = self.loop.do(self.loop.create_task, drv())
        else:
            raise AssertionError(op)

    def _issue_client_op(self, k):
        c = self.clients[k]
        op = c["ops"][c["i"]]
        c["i"] += 1
        rd = c["reader"]
        sc = self.sc

        def feed(obj):
            self.loop.do(rd.feed_data, (json.dumps(obj) + "\n").encode())

        kind = op[0]
        if kind == "enq":
            i = op[1]
            t = sc["tasks"][i]
            deps = [self.tids.get(d, 900 + d) for d in t["deps"]] + list(t.get("extra_deps", ()))
            msg = dict(__kind__="enqueue_task", name=f"t{i}", script=f"run t{i}", time_limit=t.get("time_limit"), working_dir=self.scratch, deps=deps)
            variant = op[2] if len(op) > 2 else None
            if variant == "missing_field":
                del msg["working_dir"]
            elif variant == "extra_field":
                msg["bogus"] = 1
            elif variant == "deps_wrongtype":
                msg["deps"] = "ab"
            elif variant == "deps_int":
                msg["deps"] = 5
            if variant != "missing_field":
                c["expect"] += 1
                c["enq_order"].append(i)
            feed(msg)
        elif kind == "enq+states":
            # one write carrying an enqueue and a state query: the query is answered right after the acknowledgement
            i = op[1]
            t = sc["tasks"][i]
            deps = [self.tids.get(d, 900 + d) for d in t["deps"]] + list(t.get("extra_deps", ()))
            msg = dict(__kind__="enqueue_task", name=f"t{i}", script=f"run t{i}", time_limit=t.get("time_limit"), working_dir=self.scratch, deps=deps)
            c["expect"] += 2
            c["enq_order"].append(i)
            self.loop.do(rd.feed_data, (json.dumps(msg) + "\n" + json.dumps(dict(__kind__="get_task_states")) + "\n").encode())
        elif kind == "enq+cancel":
            # one write carrying an enqueue and the cancel of the id it is going to get (ids are a counter): the task is cancelled before
            # its worker ever ran — it must still end CANCELLED, not stay SUBMITTED
            i = op[1]
            t = sc["tasks"][i]
            deps = [self.tids.get(d, 900 + d) for d in t["deps"]] + list(t.get("extra_deps", ()))
            msg = dict(__kind__="enqueue_task", name=f"t{i}", script=f"run t{i}", time_limit=t.get("time_limit"), working_dir=self.scratch, deps=deps)
            tid = len(self.issued)
            self.cancel_named.append(tid)
            c["expect"] += 1
            c["enq_order"].append(i)
            self.loop.do(rd.feed_data, (json.dumps(msg) + "\n" + json.dumps(dict(__kind__="cancel_task", tid=tid)) + "\n").encode())
        elif kind == "states":
            c["expect"] += 1
            feed(dict(__kind__="get_task_states"))
        elif kind == "state1":
            c["expect"] += 1
            c.setdefault("state1_tids", []).append(op[1])
            feed(dict(__kind__="get_task_state", tid=op[1]))
        elif kind == "cancel":
            i = op[1]
            tid = self.tids.get(i, 900 + i) if isinstance(i, int) else i
            self.cancel_named.append(tid)
            feed(dict(__kind__="cancel_task", tid=tid))
        elif kind == "close":
            feed(dict(__kind__="close"))
        elif kind == "raw":
            self.loop.do(rd.feed_data, op[1])
        elif kind == "eof":
            self.loop.do(rd.feed_eof)
            c["i"] = len(c["ops"])  # nothing can follow on a closed connection
        elif kind == "reset":
            self.loop.do(rd.set_exception, ConnectionResetError("Connection reset by peer"))
            c["i"] = len(c["ops"])
        else:
            raise AssertionError(op)

    def _predict_tid(self):
        # ids are issued by a counter in enqueue order; ops are applied in script order
        return len(self.tids)

    # ------------------------------------------------------------------ state monitors
    def _after_state(self):
        # (the bound counts processes that have not been sent a kill: one that ignores SIGKILL is the kernel's business)
        # stability of final states
        for i in range(self.n):
            st = self.state_name(i)
            prev = self.final_seen.get(i)
            if prev is not None and st != prev:
                self.violations.append(("C13", "a final task state changed", dict(task=i, was=prev, now=st)))
                self.final_seen[i] = st
            elif st in FINAL and prev is None:
                t = self.sched.tasks.get(self.tids[i])
                # a state set by cancel_task is final for the user at once
                self.final_seen[i] = st
        if not self.loop.n_ready():
            self._quiescent_checks()

    def _quiescent_checks(self):
        cores = self.sc["cores"]
        holders = 0
        waiting_ready = []
        for i in range(self.n):
            tid = self.tids.get(i)
            if tid is None or tid not in self.sched.tasks:
                continue
            task = self.sched.tasks[tid]
            st = self.state_name(i)
            if not task.done() and self.facts[i]["spawns"] > 0:
                holders += 1
            if st == "SUBMITTED" and not task.done() and all(self.state_name(d) == "COMPLETED" for d in self.sc["tasks"][i]["deps"]) \
                    and not self.sc["tasks"][i].get("extra_deps"):
                # all deps complete; at quiescence it can only be waiting for a core
                waiting_ready.append(i)
        if waiting_ready and holders < cores:
            self.violations.append(("C12", "a core is idle while a task whose dependencies are complete is waiting",
                                    dict(waiting=waiting_ready, holders=holders, cores=cores, sem=getattr(self.sched.cores_ressource, "_value", None))))

    # ------------------------------------------------------------------ hashing (for pruning and counting)
    def state_hash(self):
        sch = self.sched
        tasks = []
        for i in range(self.n):
            tid = self.tids.get(i)
            if tid is None or tid not in sch.tasks:
                tasks.append(None)
                continue
            tasks.append((self.state_name(i), coro_pos(sch.tasks[tid]), tuple(sorted(self.facts[i].items()))))
        sem = sch.cores_ressource
        waiters = []
        for w in (sem._waiters or ()):
            owner = None
            for i in range(self.n):
                tid = self.tids.get(i)
                t = sch.tasks.get(tid)
                if t is not None and not t.done() and t._fut_waiter is w:
                    owner = i
            waiters.append((owner, w.done()))
        procs = tuple((p.tag, p.returncode, p.killed, p.terminated) for p in self.world.procs)
        now = self.loop.time()
        timers = tuple(sorted(round(h._when - now, 6) for h in self.loop._scheduled if not h._cancelled))
        extra = ()
        if self.clients:
            extra = tuple((c["i"], coro_pos(c["handler"]), bytes(c["reader"]._buffer), len(c["writer"].data)) for c in self.clients)
        elif self.sc.get("via") == "server":
            extra = (coro_pos(self.handler), bytes(self.reader._buffer), len(self.writer.data))
        return hash((tuple(tasks), sem._value, tuple(waiters), procs, timers, self.op_i, extra, self.loop.n_ready(),
                     tuple(sorted(self.final_seen.items())), len(self.violations)))

    # ------------------------------------------------------------------ final oracle
    def final_checks(self):
        sc = self.sc
        out = []
        states = {i: self.state_name(i) for i in range(self.n)}
        for i in range(self.n):
            if i not in self.tids or self.tids[i] not in self.sched.tasks:
                continue  # never enqueued / enqueue rejected
            exp = RP.allowed_final(i, sc, self.facts, states)
            st = states[i]
            if st not in exp:
                prop = "C11" if (sc["tasks"][i]["deps"] and any(states[d] != "COMPLETED" for d in sc["tasks"][i]["deps"]) and self.facts[i]["spawns"] == 0 and st in FINAL) else "C13"
                out.append((prop, "final task state does not match what happened to it", dict(task=i, state=st, allowed=sorted(exp), facts=self.facts[i], states=states)))
            # dependency failed/cancelled => never spawned
            if any(states[d] != "COMPLETED" for d in sc["tasks"][i]["deps"]) and self.facts[i]["spawns"]:
                out.append(("C11", "task ran although a dependency did not complete", dict(task=i, states=states)))
            f = self.facts[i]
            # logs of a task that ran to its natural end
            if not (sc.get("log_fail") is True or i in (sc.get("log_fail") or ())) and (st == "COMPLETED" or (st == "FAILED" and f["exit"] not in (None, -9) and not f["killed"])):
                want = sc.get("payloads", {}).get(i, (b"", b""))
                for ext, data in ((".stdout", want[0]), (".stderr", want[1])):
                    p = os.path.join(self.scratch, ".gwf", "logs", f"t{i}{ext}")
                    got = open(p, "rb").read() if os.path.exists(p) else None
                    if got != data:
                        out.append(("C13", "log file does not hold the task's complete output", dict(task=i, file=f"t{i}{ext}", expected_len=len(data), got_len=None if got is None else len(got))))
        for p in self.world.procs:
            if p.alive:
                out.append(("C13", "process still alive at the horizon", dict(proc=p.tag)))
            elif p.stubborn and not p.killed and states.get(int(p.tag[1:])) in ("CANCELLED", "KILLED"):
                out.append(("C13", "a command of the cancelled / timed-out task that ignores SIGTERM was never sent SIGKILL and keeps running", dict(proc=p.tag, state=states.get(int(p.tag[1:])), terminated=p.terminated)))
        if self.clients:
            # C14: whatever a misbehaving client sent, every accepted task ends as its owner's requests and the environment determine
            out += [("C14", w, d) for p_, w, d in list(out) if p_ in ("C11", "C13") and w.startswith(("final task state", "task ran although"))]
        out += self.client_checks()
        out += self.capacity_probe()
        return out

    def capacity_probe(self):
        """After everything has finished the pool must still have exactly `cores` cores: cores+1 fresh independent tasks are
        enqueued; exactly `cores` of them must be running at the next quiescent point, and all of them must run eventually.
        Observes processes only (no scheduler internals)."""
        cores = self.sc["cores"]
        if self.sc.get("no_probe"):
            return []  # (a pool that was shut down takes no more tasks)
        if any(p.alive for p in self.world.procs) or any(not t.done() for t in self.sched.tasks.values()):
            return []  # reported elsewhere
        saved, self.world.listeners = self.world.listeners, []
        try:
            n0 = len(self.world.procs)
            for k in range(cores + 1):
                self.loop.do(self.loop.create_task, self.sched.enqueue_task(name=f"probe{k}", script=f"true probe{k}", working_dir=self.scratch, time_limit=None, deps=[]))
            self.loop.run_quiescent()
            live_first = len(self.world.live())
            guard = 0
            while self.world.live() and guard < 4 * (cores + 1):
                guard += 1
                self.loop.do(self.world.live()[0].deliver_exit, 0)
                self.loop.run_quiescent()
            spawned = len(self.world.procs) - n0
        finally:
            self.world.listeners = saved
        if live_first != cores or spawned != cores + 1:
            detail = dict(cores=cores, running_at_once=live_first, ran_in_total=spawned, probes=cores + 1)
            what = "after all tasks finished the pool no longer runs exactly `cores` tasks at once"
            return [("C12", what, detail)] + ([("C14", what, detail)] if self.clients else [])
        return []

    def client_checks(self):
        """C14: ids unique, state answers true, healthy clients served, accepted tasks final."""
        out = []
        if not self.clients:
            return out
        if len(set(self.issued)) != len(self.issued):
            out.append(("C14", "the pool issued one task id twice", dict(issued=self.issued)))
        for c in self.clients:
            c["state1_seen"] = 0
            lines = c["writer"].lines()
            snaps = c["writer"].snapshots
            enq_seen = 0
            for k, line in enumerate(lines):
                try:
                    msg = json.loads(line)
                except ValueError:
                    out.append(("C14", "server sent an unparsable response", dict(client=c["name"], line=line[:80])))
                    continue
                kind = msg.get("__kind__")
                if kind == "task_enqueued":
                    if enq_seen < len(c["enq_order"]):
                        idx = c["enq_order"][enq_seen]
                        if self.tids.get(idx) != msg["tid"]:
                            out.append(("C14", "task_enqueued answered with an id that is not the task's own", dict(client=c["name"], task=idx, answered=msg["tid"], true=self.tids.get(idx))))
                    enq_seen += 1
                elif kind == "task_state":
                    asked = c.get("state1_tids", [])
                    n1 = c.get("state1_seen", 0)
                    c["state1_seen"] = n1 + 1
                    truth = snaps[k] if k < len(snaps) else None
                    if n1 < len(asked) and truth is not None:
                        tid = asked[n1]
                        want = truth.get(str(tid)) if type(tid) is int else None
                        if msg.get("state") != want:
                            out.append(("C14", "task_state answer differs from the true state of the id asked about", dict(client=c["name"], asked=tid, answered=msg.get("state"), true=want)))
                elif kind == "task_states":
                    acked = c["writer"].acked_snaps[k] if k < len(getattr(c["writer"], "acked_snaps", [])) else []
                    missing = [t for t in acked if str(t) not in msg["tasks"]]
                    if missing:
                        out.append(("C14", "a task_states answer lacks a task whose id the pool had already acknowledged", dict(client=c["name"], missing=missing, answered=msg["tasks"])))
                    truth = snaps[k] if k < len(snaps) else None
                    if truth is not None and msg["tasks"] != truth:
                        out.append(("C14", "task_states answer differs from the true task states", dict(client=c["name"], answered=msg["tasks"], true=truth)))
            if c["healthy"] and len(lines) != c["expect"]:
                out.append(("C14", "a well-behaved client was not answered", dict(client=c["name"], expected_responses=c["expect"], got=len(lines), lines=lines[-3:])))
        states = {i: self.state_name(i) for i in range(self.n)}
        for i, tid in self.tids.items():
            if states[i] not in FINAL:
                out.append(("C14", "an accepted task never reached a final state", dict(task=i, state=states[i], states=states)))
        return out


class ReplayDivergence(RuntimeError):
    """The same choice prefix led to a different set of enabled actions: the code under test (or the harness) is not a function of
    the schedule. With the pinned gwf this never happens; a change that e.g. pops from a `set` of Task objects makes it happen."""


def run_one(sc, scratch, choices):
    """Replay `choices` (indices into enabled()), then follow the default schedule. Returns the finished Exec and the
    list of choice points (enabled lists + index taken)."""
    ex = Exec(sc, scratch)
    points = []
    k = 0
    guard = 0
    while True:
        en = ex.enabled()
        if not en:
            break
        if k < len(choices):
            c = choices[k]
            if c >= len(en):
                ex.close()
                raise ReplayDivergence(f"replay divergence: choice {c} out of range {len(en)} at point {k}")
        else:
            c = 0
        points.append((en, c, ex.state_hash() if en[0][0] != "step" else None))
        ex.apply(en[c])
        k += 1
        guard += 1
        if guard > 2000:
            ex.violations.append(("C13", "execution does not terminate within 2000 choice points (livelock)", {}))
            break
    return ex, points


def explore(sc, scratch, bound, stats, on_exec, prune=True):
    """Deviation-bounded DFS. on_exec(ex, points) is called for every complete execution."""
    visited = {}

    def rec(prefix, used):
        try:
            ex, points = run_one(sc, scratch, prefix)
        except ReplayDivergence:
            stats["divergences"] = stats.get("divergences", 0) + 1
            return
        try:
            stats["executions"] += 1
            stats["choice_points"] += len(points)
            on_exec(ex, points)
        finally:
            ex.close()
        # count deviations along this execution and branch
        cost = 0
        costs = []
        for en, c, h in points:
            costs.append(cost)
            if en[0][0] == "step" and c != 0:
                cost += 1
        for i in range(len(prefix), len(points)):
            en, c, h = points[i]
            base = costs[i]
            quiescent = en[0][0] != "step"
            if quiescent and prune and h is not None:
                key = (h,)
                rem = bound - base
                if visited.get(key, -1) >= rem:
                    # this state (with at least as much remaining budget) has been expanded before: its alternatives are covered
                    stats["pruned"] += 1
                    break
                visited[key] = rem
                stats["states"].add(h)
            for alt in range(1, len(en)):
                ncost = base + (0 if quiescent else 1)
                if ncost > bound:
                    continue
                stats["transitions"] += 1
                rec([p[1] for p in points[:i]] + [alt], ncost)

    rec([], 0)
