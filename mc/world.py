"""World model + in-process driver.

A *world state* is the persistent data a gwf command is a function of:
  wf      workflow description (rendered to workflow.py)
  files   relpath -> (rank, content)        rank = integer virtual mtime tick (order + ties are all gwf can see)
  conf    dict | None                       .gwfconf.json
  tracked dict backend -> {target: jobid}   .gwf/<backend>-backend-tracked.json  (absent file == {})
  hashes  dict | None                       .gwf/spec-hashes.json               (absent file == {})
  logs    dict filename -> content          .gwf/logs/
  sim     simulated scheduler state (mc.simsched), plain data
`Session` materialises a world under /dev/shm, runs real gwf commands in-process (click CliRunner, all
process-global state reset), and reads the world back (semantic read).
"""
from __future__ import annotations

import copy
import hashlib
import json
import logging
import os
import shutil
import sys
import tempfile
import traceback

from mc import simsched

BASE = 1_500_000_000  # rank r <-> mtime BASE seconds + r quarter-seconds (far in the past: anything gwf touches is newer)
STEP_NS = 250_000_000  # consecutive ranks are 0.25 s apart: a comparison that truncates mtimes to whole seconds shows up


def rank_ns(rank):
    return BASE * 10**9 + STEP_NS * rank


def sha1(s):
    """The record gwf stores for a spec. *Which* digest gwf uses is not part of any property (only when it is recorded and compared),
    so the harness asks gwf for it and falls back to sha1."""
    try:
        from gwf.core import hash_spec

        return hash_spec(s)
    except Exception:
        return hashlib.sha1(s.encode("utf-8")).hexdigest()


class T:
    """Target description. inputs/outputs are python containers of path strings (rendered with repr)."""

    def __init__(self, name, inputs, outputs, spec="", options=None, protect=None, how="target", working_dir=None):
        self.name, self.inputs, self.outputs, self.spec = name, inputs, outputs, spec
        self.options = options or {}
        self.protect = protect
        self.how = how
        self.working_dir = working_dir

    def key(self):
        return (self.name, repr(self.inputs), repr(self.outputs), self.spec, repr(sorted(self.options.items())),
                repr(self.protect), self.how, self.working_dir)

    def flat(self, which):
        from mc.ref.paths import leaves

        return [str(x) for x in leaves(getattr(self, which))]


class Workflow:
    def __init__(self, targets, defaults=None, working_dir=None, header=""):
        self.targets = list(targets)
        self.defaults = defaults
        self.working_dir = working_dir
        self.header = header

    def key(self):
        return (tuple(t.key() for t in self.targets), repr(self.defaults), self.working_dir, self.header)

    def names(self):
        return [t.name for t in self.targets]

    def by_name(self, n):
        return next(t for t in self.targets if t.name == n)

    def with_spec(self, name, spec):
        w = copy.deepcopy(self)
        w.by_name(name).spec = spec
        return w

    def source(self):
        args = []
        if self.working_dir is not None:
            args.append(f"working_dir={self.working_dir!r}")
        if self.defaults is not None:
            args.append(f"defaults={self.defaults!r}")
        out = ["from gwf import Workflow, AnonymousTarget", self.header, f"gwf = Workflow({', '.join(args)})", ""]
        for t in self.targets:
            opts = "".join(f", {k}={v!r}" for k, v in t.options.items())
            prot = f", protect={t.protect!r}" if t.protect is not None else ""
            if t.how == "target_late_protect":
                # the protect set is filled in after the target was created (Workflow.target returns the target for further manipulation)
                out.append(f"_t = gwf.target({t.name!r}, inputs={t.inputs!r}, outputs={t.outputs!r}{opts}) << {t.spec!r}")
                out.append(f"_t.flattened_outputs(); _t.protected()")
                out.append(f"for _p in {list(t.protect or [])!r}: _t.protect.add(_p)")
            elif t.how == "target":
                out.append(f"gwf.target({t.name!r}, inputs={t.inputs!r}, outputs={t.outputs!r}{prot}{opts}) << {t.spec!r}")
            elif t.how == "template":
                wd = f", working_dir={t.working_dir!r}" if t.working_dir is not None else ""
                out.append(
                    f"gwf.target_from_template({t.name!r}, AnonymousTarget(inputs={t.inputs!r}, outputs={t.outputs!r}, "
                    f"options={{}}, spec={t.spec!r}{wd}{prot}){opts})"
                )
            else:
                raise AssertionError(t.how)
        return "\n".join(out) + "\n"

    def ref_targets(self, wd):
        """Targets in ref.plan form (resolved paths)."""
        from mc.ref.paths import resolve

        return [
            dict(name=t.name, inputs={resolve(wd, p) for p in t.flat("inputs")}, outputs={resolve(wd, p) for p in t.flat("outputs")})
            for t in self.targets
        ]


class World:
    FIELDS = ("wf", "files", "conf", "tracked", "hashes", "logs", "sim")

    def __init__(self, wf, files=None, conf=None, tracked=None, hashes=None, logs=None, sim=None, pool=None):
        self.pool = pool  # local worker pool: operation log + summary (mc.localbridge), or None
        self.private = {}  # any other file gwf keeps under .gwf/ (none today): carried along so that caches etc. persist across invocations
        self.wf = wf
        self.files = dict(files or {})
        self.conf = conf
        self.tracked = dict(tracked or {})
        self.hashes = hashes
        self.logs = dict(logs or {})
        self.sim = sim

    def copy(self):
        w = World(self.wf, dict(self.files), copy.deepcopy(self.conf), copy.deepcopy(self.tracked), copy.deepcopy(self.hashes),
                  dict(self.logs), copy.deepcopy(self.sim), copy.deepcopy(self.pool))
        if hasattr(self, "hashing_intent"):
            w.hashing_intent = self.hashing_intent
        w.private = dict(self.private)
        return w

    def clock(self):
        return max([r for r, _ in self.files.values()] + [0])

    def backend(self):
        return (self.conf if isinstance(self.conf, dict) else {}).get("backend", "slurm")

    def canon_files(self):
        """dense ranks preserving order and ties"""
        ranks = sorted({r for r, _ in self.files.values()})
        dense = {r: i + 1 for i, r in enumerate(ranks)}
        return {p: (dense[r], c) for p, (r, c) in self.files.items()}

    def normalize(self):
        self.files = self.canon_files()
        return self

    def semantic(self):
        """What C05 calls 'semantically unchanged': absent state file == empty map."""
        return dict(
            files=self.canon_files(),
            tracked={b: t for b, t in self.tracked.items() if t},
            hashes=self.hashes or {},
            logs=self.logs,
            conf=self.conf or {},
        )


class Result:
    def __init__(self, exit_code, stdout, stderr, exc, tb):
        self.exit_code, self.stdout, self.stderr, self.exc, self.tb = exit_code, stdout, stderr, exc, tb

    def crashed(self):
        """An uncaught non-click exception (a traceback for the user)."""
        return self.exc is not None

    def err_summary(self):
        if self.exc:
            return self.exc
        return (self.stderr or self.stdout).strip().splitlines()[-1][:120] if (self.stderr or self.stdout).strip() else ""

    def as_dict(self):
        return dict(exit_code=self.exit_code, stdout=self.stdout, stderr=self.stderr, exc=self.exc)


# audit hook: journal of file touch events (cannot be removed once installed: a global switch)
_AUDIT = {"on": False, "events": [], "installed": False}


def _audit(event, args):
    if not _AUDIT["on"]:
        return
    if event == "os.utime":
        # (path, times, ns, dir_fd): explicit times are data the program chose (its own clock), not "now" as the kernel sees it
        explicit = len(args) > 2 and (args[1] is not None or args[2] is not None)
        target = args[0]
        if isinstance(target, int):  # os.utime(fd): name the file while the descriptor is still open
            try:
                target = os.readlink(f"/proc/self/fd/{target}")
            except OSError:
                return
        _AUDIT["events"].append(("utime-explicit" if explicit else "utime", target))
    elif event == "open":
        path, mode, flags = args
        if isinstance(path, (str, bytes, os.PathLike)) and isinstance(flags, int) and (flags & (os.O_WRONLY | os.O_RDWR | os.O_CREAT | os.O_TRUNC | os.O_APPEND)):
            _AUDIT["events"].append(("open", path))
    elif event == "os.remove":
        _AUDIT["events"].append(("remove", args[0]))


def _install_audit():
    if not _AUDIT["installed"]:
        sys.addaudithook(_audit)
        _AUDIT["installed"] = True


_SESSION_COUNTER = [0]


class Session:
    """Materialised world + command driver."""

    def __init__(self, world: World, root=None, keep=False):
        from mc.runner import worker_scratch

        _SESSION_COUNTER[0] += 1
        base = root or worker_scratch("world")
        self.dir = os.path.join(base, f"p{os.getpid()}_{_SESSION_COUNTER[0]}")
        self.proj = os.path.join(self.dir, "proj")
        self.keep = keep
        self.world0 = world
        self.sim = None
        self.live = None
        self.local_connect = None
        self.connect_attempts = []
        self.sim_hook = None
        self.file_hook = None  # file_hook(event, path): event in open/write/close/replace on files opened for writing by gwf
        self.file_fault_at = None  # the k-th open-for-writing of the command raises OSError(ENOSPC)
        self.touch_events = []
        self.clock = world.clock()
        self._materialise(world)

    def __enter__(self):
        return self

    def __exit__(self, *a):
        if getattr(self, "live", None) is not None:
            self.live.close()
        if not self.keep:
            shutil.rmtree(self.dir, ignore_errors=True)

    # ------------------------------------------------------------------
    def _materialise(self, w: World):
        os.makedirs(self.proj)
        with open(os.path.join(self.proj, "workflow.py"), "w") as f:
            f.write(w.wf.source().replace("@PROJBASE@", os.path.basename(self.proj)).replace("@PROJ@", self.proj))
        self.write_files(w.files)
        if w.conf is not None:
            with open(os.path.join(self.proj, ".gwfconf.json"), "w") as f:
                if isinstance(w.conf, (tuple, list)):
                    _dump_json(w.conf, f)
                else:
                    json.dump(w.conf, f, indent=4, sort_keys=True)
        need_gwf = w.tracked or w.hashes is not None or w.logs
        if need_gwf:
            os.makedirs(os.path.join(self.proj, ".gwf", "logs"), exist_ok=True)
        for b, t in w.tracked.items():
            if t is not None:
                with open(os.path.join(self.proj, ".gwf", f"{b}-backend-tracked.json"), "w") as f:
                    _dump_json(t, f)
        if w.hashes is not None:
            with open(os.path.join(self.proj, ".gwf", "spec-hashes.json"), "w") as f:
                _dump_json(w.hashes, f)
        for rel, content in getattr(w, "private", {}).items():
            pth = os.path.join(self.proj, ".gwf", rel)
            os.makedirs(os.path.dirname(pth), exist_ok=True)
            with open(pth, "w") as f:
                f.write(content)
        for name, content in w.logs.items():
            with open(os.path.join(self.proj, ".gwf", "logs", name), "w") as f:
                f.write(content)
        kind = w.backend() if w.backend() in ("slurm", "sge", "lsf") else "slurm"
        state = copy.deepcopy(w.sim) if w.sim is not None else simsched.new_state(kind)
        state["journal"] = []  # the journal describes one session's commands; it is not part of the world state
        state["calls"] = 0
        state["exe_count"] = {}
        self.sim = simsched.Sim(state)
        self.live = None
        if w.pool is not None:
            from mc import localbridge

            self.live = localbridge.LivePool(w.pool, self.proj)
            self.local_connect = localbridge.make_connect(self.live, self.connect_attempts)

    def write_files(self, files):
        for rel, (rank, content) in files.items():
            p = os.path.join(self.proj, rel)
            os.makedirs(os.path.dirname(p), exist_ok=True)
            t = rank_ns(rank)
            if isinstance(content, (tuple, list)) and content and content[0] == "symlink":
                if os.path.lexists(p):
                    os.remove(p)
                os.symlink(content[1], p)  # content = ("symlink", target relative to the link's directory)
                os.utime(p, ns=(t, t), follow_symlinks=False)
                continue
            with open(p, "w") as f:
                f.write(content)
            os.utime(p, ns=(t, t))

    def set_file(self, rel, content=None):
        """Environment/user step: (re)write a file at the next clock tick."""
        self.clock += 1
        p = os.path.join(self.proj, rel)
        if content is None:
            content = open(p).read() if os.path.exists(p) else ""
        self.write_files({rel: (self.clock, content)})

    def remove_file(self, rel):
        os.remove(os.path.join(self.proj, rel))

    # ------------------------------------------------------------------
    def gwf(self, args, input=None, cwd=None, env=None, backend_flag=None, cwd_on_path=False):
        """Run `gwf <args>` in-process from `cwd` (default: project dir)."""
        from click.testing import CliRunner

        import gwf.backends.utils as bu
        import gwf.cli
        import gwf.core
        import click._compat

        _install_audit()
        root = logging.getLogger()
        saved_handlers, saved_level = root.handlers[:], root.level
        root.handlers = []
        saved_path = sys.path[:]
        saved_cwd = os.getcwd()
        saved_isatty = click._compat.isatty
        saved_sub, saved_sh = bu.subprocess, bu.shutil
        gwf.core.Target._creation_order = 0
        bu.subprocess = simsched.PopenShim(self.sim, hook=self.sim_hook)
        bu.shutil = simsched.WhichShim(self.sim)
        patched = []
        patched_os = []
        self.write_opens = []  # every file gwf opened for writing during this command, in order
        if self.file_hook is not None or self.file_fault_at is not None:
            import builtins

            import gwf.utils as gu

            hook = self.file_hook or (lambda event, path: None)
            me = self

            class _Proxy:
                def __init__(self, f, path):
                    self._f, self._path = f, path

                def write(self, data):
                    n = self._f.write(data)
                    hook("write", self._path)
                    return n

                def close(self):
                    self._f.close()
                    hook("close", self._path)

                def __enter__(self):
                    return self

                def __exit__(self, *a):
                    self.close()

                def __getattr__(self, k):
                    return getattr(self._f, k)

            def open_proxy(path, mode="r", *a, **kw):
                if "w" in mode or "a" in mode or "+" in mode or "x" in mode:
                    k = len(me.write_opens)
                    me.write_opens.append(str(path))
                    if me.file_fault_at == k:
                        import errno

                        raise OSError(errno.ENOSPC, "No space left on device", str(path))
                    f = builtins.open(path, mode, *a, **kw)
                    hook("open", str(path))
                    return _Proxy(f, str(path))
                return builtins.open(path, mode, *a, **kw)

            class _OsProxy:
                """`os` as seen by gwf.utils: a crash point right after the rename that publishes a state file (whatever was
                not flushed to the temporary file by then is not in the published file)."""

                def __getattr__(self, k):
                    return getattr(os, k)

                def replace(self, src, dst):
                    os.replace(src, dst)
                    hook("replace", str(dst))

                def rename(self, src, dst):
                    os.rename(src, dst)
                    hook("replace", str(dst))

            for name, m in list(sys.modules.items()):
                if (name == "gwf" or name.startswith("gwf.")) and m is not None and name != "gwf.backends.local":
                    m.open = open_proxy
                    patched.append(m)
            if "os" in gu.__dict__:
                gu.os = _OsProxy()
                patched_os.append(gu)
        import gwf.backends.local as gl

        saved_connect = gl.Client.__dict__["connect"]
        if self.local_connect is not None:
            gl.Client.connect = classmethod(self.local_connect)
        else:
            def _refuse(cls, hostname="localhost", port=12345, attempts=20, _s=self):
                _s.connect_attempts.append((hostname, port))
                raise ConnectionRefusedError("no worker pool in this world")

            gl.Client.connect = classmethod(_refuse)
        os.chdir(cwd or self.proj)
        self.last_cwd = os.getcwd()
        modules_before = set(sys.modules)
        n_modules = len(modules_before)
        if cwd_on_path:
            sys.path.insert(0, "")  # as under `python -m ...` / PYTHONPATH=. : the invoking directory is searched for modules first
        _AUDIT["events"] = []
        _AUDIT["on"] = True
        try:
            runner = CliRunner()
            full = (["-b", backend_flag] if backend_flag else []) + list(args)
            r = runner.invoke(gwf.cli.main, full, input=input, env=env, catch_exceptions=True)
        finally:
            _AUDIT["on"] = False
            os.chdir(saved_cwd)
            sys.path[:] = saved_path
            if len(sys.modules) != n_modules:  # helper modules a workflow file imported from this session's directories
                for _name in [k for k in sys.modules if k not in modules_before]:
                    _f = getattr(sys.modules[_name], "__file__", None)
                    if _f and _f.startswith(self.dir + os.sep):
                        del sys.modules[_name]
            root.handlers = saved_handlers
            root.setLevel(saved_level)
            click._compat.isatty = saved_isatty
            bu.subprocess, bu.shutil = saved_sub, saved_sh
            gl.Client.connect = saved_connect
            for m in patched:
                del m.open
            for m in patched_os:
                m.os = os
        self.touch_events += list(_AUDIT["events"])
        exc = tb = None
        if r.exception is not None and not isinstance(r.exception, SystemExit):
            exc = f"{type(r.exception).__name__}: {r.exception}"[:300]
            tb = "".join(traceback.format_exception(*r.exc_info))[-1500:] if r.exc_info else None
        self._restamp()
        return Result(r.exit_code, r.stdout, r.stderr, exc, tb)

    def gwf_fresh(self, args, input=None, cwd=None, env=None, backend_flag=None, timeout=120):
        """Fresh-process tier: the same command through a separate interpreter (`python -c 'from gwf.cli import main; main()'`, i.e. what
        the `gwf` console script does) with the simulator *executables* first on PATH. The simulator state travels through a file."""
        import subprocess

        from mc.runner import REPO, VERIF

        st = os.path.join(self.dir, "sim.json")
        with open(st, "w") as f:
            json.dump(self.sim.s, f)
        e = dict(os.environ, PATH=os.path.join(VERIF, "bin") + ":/usr/bin:/bin", SIMSCHED_STATE=st, PYTHONPATH=os.path.join(REPO, "src"), PYTHONDONTWRITEBYTECODE="1",
                 PYTHONHASHSEED=os.environ.get("PYTHONHASHSEED", "0"))
        e.pop("NO_COLOR", None)
        e.update(env or {})
        full = (["-b", backend_flag] if backend_flag else []) + list(args)
        p = subprocess.run(["/venv/bin/python", "-c", "import sys; from gwf.cli import main; sys.argv[0] = 'gwf'; main()"] + full, cwd=cwd or self.proj, env=e,
                           input=input if input is not None else "", capture_output=True, text=True, timeout=timeout)
        with open(st) as f:
            self.sim.s = json.load(f)
        os.remove(st)
        exc = None
        if "Traceback (most recent call last)" in p.stderr:
            exc = p.stderr.strip().splitlines()[-1][:300]
        return Result(p.returncode, p.stdout, p.stderr, exc, None)

    def _restamp(self):
        """Give every file gwf touched/created a fresh virtual tick, in the order of the journaled events
        (the kernel clock is too coarse to order them)."""
        def fresh(ns):  # stamped by the real kernel clock (or any clock other than this harness' rank clock)
            off = ns - BASE * 10**9
            return not (off % STEP_NS == 0 and 0 <= off < STEP_NS * 10**7)

        last = {}
        for k, (ev, path) in enumerate(self.touch_events):
            try:
                raw = os.path.abspath(os.path.join(self.last_cwd, os.fspath(path)))
            except TypeError:
                continue
            # what the event may have stamped: the name itself (a symbolic link touched without following it) and the file behind it
            for p, is_link in ((raw, True), (os.path.realpath(raw), False)):
                if is_link and not os.path.islink(p):
                    continue
                last[(p, is_link)] = (k, ev)
        self.touch_events = []
        proj = os.path.realpath(self.proj)
        for (p, is_link), (_k, ev) in sorted(last.items(), key=lambda kv: kv[1][0]):
            anchor = os.path.join(os.path.realpath(os.path.dirname(p)), os.path.basename(p)) if is_link else p
            if not anchor.startswith(proj + os.sep):
                continue
            rel = os.path.relpath(anchor, proj)
            if rel.startswith(".gwf") or rel in ("workflow.py", ".gwfconf.json"):
                continue
            if ev == "utime-explicit":
                continue  # keeps the time the program chose; the snapshot orders such files after everything on the rank clock
            try:
                st = os.lstat(p) if is_link else os.stat(p)
            except OSError:
                continue
            if not is_link and not (os.path.isfile(p) or os.path.isdir(p)):
                continue
            if not fresh(st.st_mtime_ns):
                continue  # the event did not actually stamp this one (e.g. a link touched without following it leaves its target alone)
            self.clock += 1
            t = rank_ns(self.clock)
            os.utime(p, ns=(t, t), follow_symlinks=not is_link)

    # ------------------------------------------------------------------
    def snapshot(self) -> World:
        """Semantic read-back of the project directory."""
        files, logs, tracked, private = {}, {}, {}, {}
        hashes = conf = None
        proj = self.proj
        unexpected = []
        for dirpath, dirnames, filenames in os.walk(proj):
            rel_dir = os.path.relpath(dirpath, proj)
            for fn in filenames:
                p = os.path.join(dirpath, fn)
                rel = os.path.normpath(os.path.join(rel_dir, fn))
                if rel == "workflow.py":
                    continue
                if rel == ".gwfconf.json":
                    conf = _read_json(p)
                    continue
                if rel.startswith(".gwf" + os.sep):
                    sub = rel[len(".gwf") + 1:]
                    if sub.startswith("logs" + os.sep):
                        logs[sub[5:]] = open(p, errors="replace").read()
                    elif sub.endswith("-backend-tracked.json"):
                        tracked[sub[: -len("-backend-tracked.json")]] = _read_json(p)
                    elif sub == "spec-hashes.json":
                        hashes = _read_json(p)
                    else:
                        # any other file under .gwf/ is gwf's private business (lock files, caches ...): not a workflow file, not a log,
                        # but it is state that later invocations may read
                        private[sub] = open(p, errors="replace").read()
                    continue
                if os.path.islink(p):
                    st = os.lstat(p)
                    off = st.st_mtime_ns - BASE * 10**9
                    rank = off // STEP_NS if off % STEP_NS == 0 and 0 <= off < STEP_NS * 10**7 else ("fresh", st.st_mtime_ns)
                    files[rel] = (rank, ("symlink", os.readlink(p)))
                    continue
                st = os.stat(p)
                off = st.st_mtime_ns - BASE * 10**9
                rank = off // STEP_NS if off % STEP_NS == 0 and 0 <= off < STEP_NS * 10**7 else ("fresh", st.st_mtime_ns)
                files[rel] = (rank, open(p, errors="replace").read())
        fresh = sorted((r[1], p) for p, (r, _) in files.items() if isinstance(r, tuple))
        for _ns, p in fresh:  # only reached if something changed a file behind the audit hook's back
            self.clock += 1
            files[p] = (self.clock, files[p][1])
            unexpected.append("unjournaled-touch:" + p)
        w = World(self.world0.wf, files, conf, tracked, hashes, logs, copy.deepcopy(self.sim.s), self.live.pool_dict() if self.live is not None else None)
        w.unexpected = unexpected
        w.private = private
        if hasattr(self.world0, "hashing_intent"):
            w.hashing_intent = self.world0.hashing_intent
        return w


def _dump_json(value, f):
    if isinstance(value, (tuple, list)) and len(value) == 2 and value[0] == "unreadable":
        f.write(value[1])  # a torn / truncated state file, reproduced byte for byte
    else:
        json.dump(value, f)


def _read_json(p):
    try:
        with open(p) as f:
            return json.load(f)
    except ValueError:
        return ("unreadable", open(p, errors="replace").read())


def parse_status(stdout):
    """`gwf status` default table -> {name: status}"""
    res = {}
    for line in stdout.splitlines():
        parts = line.split()
        if len(parts) >= 3:
            res[parts[1]] = parts[2]
    return res


def parse_would_submit(text):
    return [l.split("Would submit ", 1)[1].strip() for l in text.splitlines() if "Would submit " in l]


def parse_submitting(text):
    return [l.split("Submitting target ", 1)[1].strip() for l in text.splitlines() if "Submitting target " in l]
