"""E2 — explicit-state breadth-first search over world states. Every transition is an execution of the real gwf
code (in-process CLI) or an environment step of the simulated scheduler / the user.

A check supplies
    expand(acc, batch, **kw)   worker-side: for every world in `batch` (pickled mc.world.World)
                                 - evaluate the per-state invariants (acc.violation on failure)
                                 - append successors as acc.out.append((key, world, action_label))
The engine deduplicates by canonical key, level by level, and counts states / transitions.
"""
import json

from mc import world as W
from mc.runner import canon, digest


def job_descr(sim, jid, tracked_rev):
    j = sim["jobs"].get(jid)
    if j is None:
        return ("unknown-id",)
    deps = json.dumps(canon(_dep_names(sim, j, tracked_rev)), sort_keys=True)
    return (j["name"], j["state"], bool(j["in_queue"]), bool(j.get("acct_lag")), bool(j.get("cancel_requested")), j.get("code"), deps)


def _dep_names(sim, j, tracked_rev):
    """dependency structure with ids replaced by (target name, is-current-tracked-job)"""
    def ren(i):
        dj = sim["jobs"].get(i)
        return (dj["name"] if dj else "?", tracked_rev.get(i) is not None, dj["state"] if dj else "?")

    d = j.get("deps")
    if d is None:
        return None
    kind = sim["kind"]
    if kind == "slurm":
        return [d["op"], [[typ, sorted(ren(i) for i in ids)] for typ, ids in d["groups"][0]]]
    if kind == "sge":
        return sorted(ren(i) for i in d)
    if kind == "lsf":
        def walk(e):
            if e[0] in ("and", "or"):
                return [e[0], walk(e[1]), walk(e[2])]
            if e[0] == "not":
                return ["not", walk(e[1])]
            return [e[0], ren(e[1])]
        return walk(d)
    return repr(d)


def world_key(w: W.World, extra=None):
    """Canonical key: files by dense rank, hash records, log names, per-target tracked job descriptor (ids renamed away),
    untracked jobs that are still active. Ids are opaque to gwf, mtimes only compared — see DESIGN §3.1."""
    backend = w.backend()
    tracked = (w.tracked or {}).get(backend) or {}
    sim = w.sim or {"jobs": {}, "kind": backend}
    tracked_rev = {i: n for n, i in tracked.items()} if isinstance(tracked, dict) else {}
    tj = {n: job_descr(sim, i, tracked_rev) for n, i in sorted(tracked.items())} if isinstance(tracked, dict) else tracked
    stray = sorted(
        job_descr(sim, j["id"], tracked_rev)
        for j in sim["jobs"].values()
        if j["user"] == "me" and j["id"] not in tracked_rev and j["state"] in ("PENDING", "RUNNING")
    )
    other_tracked = {b: t for b, t in (w.tracked or {}).items() if b != backend and t}
    if getattr(w, "pool", None) is not None:
        from mc import localbridge

        extra = (extra, localbridge.key_part(w.pool), (w.tracked or {}).get("local"))
    if getattr(w, "private", None):
        extra = (extra, sorted(w.private.items()))
    return digest(
        dict(files=w.canon_files(), hashes=w.hashes, logs=sorted(w.logs), tracked=tj, stray=stray, other=other_tracked, conf=w.conf,
             wf=repr(w.wf.key()), extra=extra)
    )


def bfs(ctx, module, expand_name, init_worlds, depth, chunk=None, max_states=None, **kw):
    """Level-synchronous BFS. Returns number of levels completed."""
    seen = {}
    frontier = []
    for w in init_worlds:
        trace0 = []
        if isinstance(w, tuple):  # (world, trace that led to it): BFS from a non-initial state, replayable from the real initial one
            w, trace0 = w
        k = world_key(w)
        if k not in seen:
            seen[k] = 0
            frontier.append((w, list(trace0)))
    level = 0
    total_transitions = 0
    while frontier and level <= depth:
        last = level == depth
        before = len(ctx.acc.out)
        ctx.pmap(module, expand_name, frontier, chunk=chunk, last=last, **kw)
        succ = ctx.acc.out[before:]
        del ctx.acc.out[before:]
        nxt = []
        # deterministic order regardless of worker scheduling
        succ.sort(key=lambda t: (t[0], json.dumps(t[2], sort_keys=True, default=str)))
        for key, w, trace in succ:
            total_transitions += 1
            if key not in seen:
                seen[key] = level + 1
                nxt.append((w, trace))
        if max_states and len(seen) > max_states:
            ctx.caps.append(f"state cap {max_states} hit at level {level + 1}; levels <= {level} fully expanded")
            frontier = []
            break
        frontier = nxt
        level += 1
    ctx.acc.extra["states"] += len(seen)
    ctx.acc.extra["transitions"] += total_transitions
    return level
