"""Real-loop / real-process tier for the pool checks (C11-C13): the environment model of mc.vloop (fake processes, virtual
clock) is tied back to reality by replaying explored traces on a stock asyncio loop with real `sh` children.

 * 'trace' items: a scenario + a choice sequence explored on the virtual loop whose actions all happen at quiescent points
   (deviation 0). The same actions are issued against a real Scheduler: client ops are awaited, exit(p, code) is delivered by writing
   the code into the FIFO the child blocks on, a timer action is real time passing. Final task states, the set of spawned tasks and the
   maximum overlap of start/end journal entries must equal the virtual run's.
 * 'kill' items: scripts that spawn children ("sleep N", "sleep N; echo", "sleep N & wait") x {cancel, time-out}: afterwards no process
   carrying the run's unique token may exist in /proc.
"""
import asyncio
import json
import os
import shutil
import tempfile
import time


def _scan_proc(token):
    found = []
    for pid in os.listdir("/proc"):
        if not pid.isdigit():
            continue
        try:
            cmd = open(f"/proc/{pid}/cmdline", "rb").read().replace(b"\0", b" ").decode("utf-8", "replace")
        except OSError:
            continue
        if token in cmd:
            found.append((int(pid), cmd.strip()[:80]))
    return found


async def _settle(cond=None, timeout=3.0, quiet=0.08):
    t0 = time.time()
    while time.time() - t0 < timeout:
        await asyncio.sleep(quiet)
        if cond is None or cond():
            return True
    return False


async def replay_real(sc, actions, workdir):
    """actions: list of ('op', op) | ('exit', idx, code) | ('timer',). Returns observation dict."""
    from gwf.backends import local

    os.makedirs(os.path.join(workdir, ".gwf", "logs"), exist_ok=True)
    journal = os.path.join(workdir, "journal")
    open(journal, "w").close()
    sched = local.Scheduler(workdir, sc["cores"])
    fifos, tids = {}, {}
    real_limit = 0.6  # a finite virtual time limit becomes this many real seconds
    for i in range(len(sc["tasks"])):
        fifos[i] = os.path.join(workdir, f"fifo{i}")
        os.mkfifo(fifos[i])
    holders = {}

    def script(i):
        # the child blocks reading its exit code from the FIFO; start/end are journaled (O_APPEND writes are atomic)
        return f"echo start {i} >> {journal}; read code < {fifos[i]}; echo end {i} >> {journal}; exit $code"

    def journal_starts():
        try:
            return sum(1 for ln in open(journal) if ln.startswith("start "))
        except OSError:
            return 0

    async def wait_expected(exp):
        """Wait (generously: the machine may be loaded) until the real pool has caught up with what the virtual run had reached."""
        if not exp:
            await _settle()
            return
        def caught_up():
            if journal_starts() < exp["spawns"]:
                return False
            for i, st in exp["states"].items():
                if i in tids and sched.task_states.get(tids[i]) is not None and sched.task_states[tids[i]].name != st and st in ("RUNNING", "COMPLETED", "FAILED", "CANCELLED", "KILLED"):
                    return False
            return True
        await _settle(caught_up, timeout=15.0, quiet=0.03)

    for act in actions:
        exp = act[-1] if isinstance(act[-1], (dict, type(None))) and len(act) > 1 else None
        if act[0] == "op":
            op = act[1]
            if op[0] == "enq":
                i = op[1]
                t = sc["tasks"][i]
                deps = [tids[d] for d in t["deps"]]
                tids[i] = await sched.enqueue_task(name=f"t{i}", script=script(i), working_dir=workdir, time_limit=real_limit if t.get("time_limit") else None, deps=deps)
            elif op[0] == "cancel":
                await sched.cancel_task(tids[op[1]])
            await wait_expected(exp)
        elif act[0] == "exit":
            i, code = act[1], act[2]
            if code == -9:
                # the virtual run delivered the exit of a killed process: in reality SIGKILL does that by itself
                await _settle(lambda: sched.tasks[tids[i]].done(), timeout=4.0)
                continue
            # keep a writer end open so that the child's `read` gets the line
            def wr(path=fifos[i], code=code):
                fd = os.open(path, os.O_WRONLY | os.O_NONBLOCK)
                os.write(fd, f"{code}\n".encode())
                os.close(fd)
            try:
                wr()
            except OSError:
                pass  # nobody reading: the process is gone already
            await _settle(lambda: sched.task_states[tids[i]].name not in ("RUNNING",) or sched.tasks[tids[i]].done(), timeout=15.0, quiet=0.03)
            await wait_expected(exp)
        elif act[0] == "timer":
            await asyncio.sleep(real_limit + 0.3)
            await wait_expected(None)
    # drain: let kills finish (gentle kill sleeps 1 s)
    await _settle(lambda: all(t.done() for t in sched.tasks.values()), timeout=14.0, quiet=0.1)
    states = {i: sched.task_states[tids[i]].name for i in tids}
    lines = open(journal).read().split("\n")
    live, max_live, spawned = 0, 0, set()
    ended = {int(ln.split()[1]) for ln in lines if ln.startswith("end ")}
    for ln in lines:
        p = ln.split()
        if len(p) == 2 and p[0] == "start":
            spawned.add(int(p[1]))
            if int(p[1]) in ended:  # a killed child never writes its 'end' line: it cannot be placed on the time line
                live += 1
                max_live = max(max_live, live)
        elif len(p) == 2 and p[0] == "end":
            live -= 1
    for t in sched.tasks.values():
        if not t.done():
            t.cancel()
    return dict(states=states, spawned=sorted(spawned), pending=[i for i in tids if not sched.tasks[tids[i]].done()], max_live_lower_bound=max_live)


def virtual_run(sc, choices, scratch):
    from mc import poolx

    ex, points = poolx.run_one(sc, scratch, choices)
    try:
        actions, ok = [], True
        # re-run step by step to record, after every non-step action has been fully processed (next quiescent point), what the
        # real run should wait for: number of spawns so far and the task states
        ex2 = poolx.Exec(sc, scratch)
        expect_after = []
        pending_idx = None
        try:
            for (en, c, h) in points:
                act = en[c]
                ex2.apply(act)
                if act[0] != "step":
                    pending_idx = len(expect_after)
                    expect_after.append(None)
                if not ex2.loop.n_ready() and pending_idx is not None:
                    expect_after[pending_idx] = dict(spawns=sum(f["spawns"] for f in ex2.facts.values()), states={i: ex2.state_name(i) for i in range(ex2.n) if i in ex2.tids})
        finally:
            ex2.close()
        for (en, c, h) in points:
            act = en[c]
            if en[0][0] == "step" and act[0] != "step":
                ok = False  # a deviation: not replayable against real time
            if act[0] in ("timer", "op") and any(a[0] == "exit" and a[2] == -9 for a in en):
                ok = False  # the virtual environment withholds the exit of a SIGKILLed process while time passes / the client goes on: reality cannot
            if act[0] == "op":
                actions.append(("op", sc["ops"][sum(1 for a in actions if a[0] == "op")]))
            elif act[0] == "exit":
                p = next(p for p in ex.world.procs if p.pid == act[1])
                actions.append(("exit", int(p.tag[1:]), act[2]))
            elif act[0] == "timer":
                actions.append(("timer",))
        states = {i: ex.state_name(i) for i in range(ex.n) if i in ex.tids}
        spawned = sorted(i for i in range(ex.n) if ex.facts[i]["spawns"])
        return dict(actions=actions, replayable=ok, states=states, spawned=spawned, violations=len(ex.violations + ex.final_checks()), expect_after=expect_after)
    finally:
        ex.close()


def collapse_timers(actions):
    """virtual traces contain one 'timer' per deadline (time limit, 1 s and 10 s grace sleeps); in real time they simply pass.
    Keep only the first timer that follows an enqueue of a time-limited task (the time limit itself)."""
    out, seen_timer = [], False
    for a in actions:
        if a[0] == "timer":
            a = a[:1] + (None,)
            if not seen_timer:
                out.append(a)
                seen_timer = True
            continue
        out.append(a)
    return out


def trace_batch(acc, batch, prop=None):
    from mc.runner import worker_scratch

    for sc, choices in batch:
        scratch = worker_scratch("real")
        v = virtual_run(sc, choices, scratch)
        if not v["replayable"] or v["violations"]:
            continue
        d = tempfile.mkdtemp(dir=scratch)
        try:
            acts = [a + (v["expect_after"][k] if k < len(v["expect_after"]) else None,) for k, a in enumerate(v["actions"])]
            real = asyncio.run(replay_real(sc, collapse_timers(acts), d))
        finally:
            shutil.rmtree(d, ignore_errors=True)
        case = dict(kind="real-trace", sc=sc, choices=choices)
        same = real["states"] == v["states"] and real["spawned"] == v["spawned"] and not real["pending"] and real["max_live_lower_bound"] <= sc["cores"]
        acc.case(key=json.dumps(case, default=str), outcome=f"real {sorted(set(real['states'].values()))} same={same}", sample=None)
        acc.extra["traces_validated"] += 1
        if not same:
            acc.violation(sig=dict(what="real-process replay differs from the virtual run", tier="real"), case=case, expected=dict(states=v["states"], spawned=v["spawned"]), observed=real,
                          msg=f"real-process replay of {v['actions']} (cores={sc['cores']}): real {real} vs virtual states {v['states']} spawned {v['spawned']}")


KILL_SCRIPTS = {
    "plain": "sleep {tok}",
    "then-echo": "sleep {tok}; echo done",
    "background-wait": "sleep {tok} & wait",
    "subshell": "(sleep {tok}; echo x) ; echo y",
    # the shell exits at once; the background command keeps the output pipes open, so the task is still 'running'
    "background-nowait": "sleep {tok} &",
    # a command that ignores SIGTERM while the shell itself dies of it
    "term-immune": "(trap '' TERM; exec sleep {tok}) & wait",
}


async def _kill_case(kind, how, workdir, tok):
    from gwf.backends import local

    os.makedirs(os.path.join(workdir, ".gwf", "logs"), exist_ok=True)
    sched = local.Scheduler(workdir, 1)
    script = KILL_SCRIPTS[kind].format(tok=tok)
    tid = await sched.enqueue_task(name="k", script=script, working_dir=workdir, time_limit=0.4 if how == "timeout" else None, deps=[])
    # a dependent of the task that is going to be cancelled / killed at its time limit: it must never run (C11)
    marker = os.path.join(workdir, "dependent-ran")
    dep = await sched.enqueue_task(name="d", script=f"touch {marker}", working_dir=workdir, time_limit=None, deps=[tid])
    await _settle(lambda: bool(_scan_proc(tok)), timeout=3.0)
    started = _scan_proc(tok)
    if how == "cancel":
        await sched.cancel_task(tid)
    await _settle(lambda: sched.tasks[tid].done(), timeout=14.0, quiet=0.1)
    await _settle(lambda: sched.tasks[dep].done(), timeout=5.0, quiet=0.1)
    await asyncio.sleep(0.3)
    left = _scan_proc(tok)
    state = sched.task_states[tid].name
    for pid, _ in left:
        try:
            os.kill(pid, 9)
        except OSError:
            pass
    return dict(started=len(started), left=left, state=state, done=sched.tasks[tid].done(), dep_ran=os.path.exists(marker), dep_state=sched.task_states[dep].name, dep_done=sched.tasks[dep].done())


def kill_batch(acc, batch, prop=None):
    from mc.runner import worker_scratch

    for kind, how, n in batch:
        d = tempfile.mkdtemp(dir=worker_scratch("real"))
        tok = f"97.{os.getpid() % 100000:05d}{n:03d}"  # unique sleep duration = token visible in /proc/*/cmdline
        try:
            obs = asyncio.run(_kill_case(kind, how, d, tok))
        finally:
            shutil.rmtree(d, ignore_errors=True)
        case = dict(kind="real-kill", script=kind, how=how, n=n)
        want_state = "CANCELLED" if how == "cancel" else "KILLED"
        ok = obs["started"] > 0 and not obs["left"] and obs["state"] == want_state and obs["done"]
        dep_ok = not obs["dep_ran"] and obs["dep_done"] and obs["dep_state"] in (("CANCELLED",) if how == "cancel" else ("FAILED", "KILLED"))
        if prop == "C11":
            ok = True  # judged by C13
        else:
            dep_ok = True  # judged by C11
        if not dep_ok:
            acc.violation(sig=dict(what="the dependent of a cancelled / timed-out task was started or did not end in the matching non-completed state", tier="real", how=how),
                          case=case, observed=obs, msg=f"script {KILL_SCRIPTS[kind]!r}, {how}: dependent ran={obs['dep_ran']} state={obs['dep_state']} (task itself {obs['state']})")
        acc.case(key=json.dumps(case), outcome=f"kill {kind}/{how} left={len(obs['left'])} state={obs['state']}", sample=case)
        acc.extra["real_processes"] += 1
        if not ok:
            acc.violation(sig=dict(what="a process of the task keeps running after cancel/time-out" if obs["left"] else "real kill scenario: wrong final state", tier="real", how=how),
                          case=case, observed=obs, msg=f"script {KILL_SCRIPTS[kind]!r}, {how}: afterwards still running: {obs['left']}; state {obs['state']}")


async def _output_case(kind, workdir):
    from gwf.backends import local

    os.makedirs(os.path.join(workdir, ".gwf", "logs"), exist_ok=True)
    sched = local.Scheduler(workdir, 1)
    scripts = {
        "big-stderr-first": "head -c 300000 /dev/zero | tr '\\0' e >&2; head -c 300000 /dev/zero | tr '\\0' o",
        "big-stdout-first": "head -c 300000 /dev/zero | tr '\\0' o; head -c 300000 /dev/zero | tr '\\0' e >&2",
        "interleaved": "for i in 1 2 3 4 5 6 7 8; do head -c 40000 /dev/zero | tr '\\0' o; head -c 40000 /dev/zero | tr '\\0' e >&2; done",
        "small-nonzero": "echo out; echo err >&2; exit 3",
    }
    want = {"big-stderr-first": (300000, 300000, "COMPLETED"), "big-stdout-first": (300000, 300000, "COMPLETED"), "interleaved": (320000, 320000, "COMPLETED"), "small-nonzero": (4, 4, "FAILED")}[kind]
    tid = await sched.enqueue_task(name="o", script=scripts[kind], working_dir=workdir, time_limit=20, deps=[])
    await _settle(lambda: sched.tasks[tid].done(), timeout=25.0, quiet=0.1)
    state = sched.task_states[tid].name
    sizes = []
    for ext in (".stdout", ".stderr"):
        p = os.path.join(workdir, ".gwf", "logs", "o" + ext)
        sizes.append(os.path.getsize(p) if os.path.exists(p) else None)
    if not sched.tasks[tid].done():
        sched.tasks[tid].cancel()
        await asyncio.sleep(1.5)
    return dict(state=state, stdout=sizes[0], stderr=sizes[1]), dict(state=want[2], stdout=want[0], stderr=want[1])


def output_batch(acc, batch, prop=None):
    from mc.runner import worker_scratch

    for kind in batch:
        d = tempfile.mkdtemp(dir=worker_scratch("real"))
        try:
            obs, want = asyncio.run(_output_case(kind, d))
        finally:
            shutil.rmtree(d, ignore_errors=True)
        case = dict(kind="real-output", script=kind)
        acc.case(key=json.dumps(case), outcome=f"output {kind} ok={obs == want}", sample=case)
        acc.extra["real_processes"] += 1
        if obs != want:
            acc.violation(sig=dict(what="output of a task that ran to its end is not stored completely / wrong final state", tier="real"), case=case, expected=want, observed=obs,
                          msg=f"script {kind}: observed {obs}, expected {want}")
