"""The local backend inside CLI-level world states: gwf's real `Client` talks over a fake socket to the real
`Server`/`Scheduler` running on the virtual loop (mc.vloop).

A pool is not plain data (coroutines, a semaphore), so in a world state it is represented by its **operation log**
   ["conn", [request lines...]]      one client connection (one gwf invocation) and what it sent, in order
   ["exit", tag, code]               the environment delivers the exit of the live process of task `tag`
   ["timer"]                         the virtual clock jumps to the next deadline
   ["restart"]                       the worker pool is stopped and started again (ids start from 0 again)
and materialised by replaying the log on a fresh loop. `summary` (task table + process table + semaphore) is recomputed after every
change and used for the canonical state key and by the reference view.
"""
import asyncio
import copy
import json
import os
import tempfile

from mc import vloop

STATE_WORD = {"SUBMITTED": "submitted", "RUNNING": "running", "FAILED": "failed", "KILLED": "failed", "COMPLETED": "completed", "CANCELLED": "cancelled", "UNKNOWN": "unknown"}


def new_pool(cores=2):
    return dict(cores=cores, log=[], summary=dict(incarnation=0, tasks=[], sem=cores, timers=False, history=[]))


class LivePool:
    """A pool materialised from its log in directory `workdir` (needs workdir/.gwf/logs for the task logs)."""

    def __init__(self, pool, workdir):
        import logging

        from gwf.backends import local

        logging.getLogger("gwf.backends.local").disabled = True
        self.local = local
        self.workdir = workdir
        self.cores = pool["cores"]
        self.log = []
        self.incarnation = 0
        self.hook = None  # hook(phase, idx, line) around every request of a *live* client (not during log replay)
        self.lost_reply_at = None  # index of the live request whose answer never arrives (connection drops after the server processed it)
        self.fault_at = None  # index of the live request at which the connection breaks (ConnectionResetError in the client)
        self.req_count = 0
        self.names = {}  # tid -> name (this incarnation)
        self.history = []  # (incarnation, tid, name) for every accepted task ever
        self._start()
        for op in pool["log"]:
            self.apply(op)

    def _start(self):
        self.world = vloop.PoolWorld()
        self.world.__enter__()
        me = self

        class MonSched(self.local.Scheduler):
            async def enqueue_task(self, name, script, working_dir, time_limit, deps):
                tid = await super().enqueue_task(name=name, script=script, working_dir=working_dir, time_limit=time_limit, deps=deps)
                me.names[tid] = name
                me.history.append((me.incarnation, tid, name))
                return tid

        def on_event(kind, proc, *a):
            if kind == "spawn":
                self.max_live = max(getattr(self, "max_live", 0), len([p for p in self.world.live() if not p.killed]))

        self.world.listeners.append(on_event)
        os.makedirs(os.path.join(self.workdir, ".gwf", "logs"), exist_ok=True)
        self.sched = self.world.loop.do(MonSched, self.workdir, self.cores)
        self.server = self.local.Server(self.sched)

    def close(self):
        self.world.__exit__()

    # ------------------------------------------------------------------ log operations
    def apply(self, op):
        k = op[0]
        if k == "conn":
            c = self.connect()
            for line in op[1]:
                c.send_line(line)
            c.close(log=False)
            self.log.append(["conn", list(op[1])])
        elif k == "exit":
            p = self.proc(op[1])
            self.world.loop.do(p.deliver_exit, op[2])
            self.world.loop.run_quiescent()
            self.log.append(list(op))
        elif k == "timer":
            self.world.loop.fire_timer()
            self.world.loop.run_quiescent()
            self.log.append(["timer"])
        elif k == "restart":
            self.close()
            self.incarnation += 1
            self.names = {}
            self._start()
            self.log.append(["restart"])
        else:
            raise AssertionError(op)

    def proc(self, tag):
        live = [p for p in self.world.live() if p.tag == tag]
        assert live, (tag, [(p.tag, p.returncode) for p in self.world.procs])
        return live[0]

    def connect(self):
        return Conn(self)

    # ------------------------------------------------------------------ views
    def summary(self):
        tasks = []
        for tid in sorted(self.sched.task_states):
            st = self.sched.task_states[tid].name
            name = self.names.get(tid)
            procs = [p for p in self.world.procs if p.tag == name]
            alive = any(p.alive for p in procs)
            killed = any(p.killed for p in procs)
            tasks.append(dict(tid=tid, name=name, state=st, alive=alive, killed=killed, done=self.sched.tasks[tid].done()))
        return dict(incarnation=self.incarnation, tasks=tasks, sem=getattr(self.sched.cores_ressource, "_value", None), timers=self.world.loop.next_deadline() is not None,
                    history=[list(h) for h in self.history], max_live=getattr(self, "max_live", 0))

    def pool_dict(self):
        return dict(cores=self.cores, log=copy.deepcopy(self.log), summary=self.summary())

    def enabled_env(self):
        acts = []
        for p in self.world.live():
            if p.killed or p.terminated:
                acts.append(("penv", "exit", p.tag, -9))
            else:
                acts.append(("penv", "exit", p.tag, 0))
                acts.append(("penv", "exit", p.tag, 1))
        if self.world.loop.next_deadline() is not None:
            acts.append(("penv", "timer"))
        return acts


class Conn:
    """One client connection to the virtual server: a StreamReader the handler reads from, and the recorded answers."""

    def __init__(self, pool: LivePool):
        self.pool = pool
        loop = pool.world.loop
        self.reader = loop.do(lambda: asyncio.StreamReader(limit=2**16, loop=loop))
        self.writer = vloop.FakeWriter()
        self.handler = loop.do(loop.create_task, pool.server.handle_connection(self.reader, self.writer))
        self.sent = []
        self.read_pos = 0
        loop.run_quiescent()

    def send_line(self, line, live=False):
        pool = self.pool
        if live:
            idx = pool.req_count
            pool.req_count += 1
            if pool.hook:
                pool.hook("before", idx, line)
            if pool.fault_at == idx:
                raise ConnectionResetError(104, "Connection reset by peer")
        self._send(line)
        if live and pool.lost_reply_at == idx:
            self.read_pos = len(self.writer.lines())  # whatever the server answered is lost
            self.dead = True
        if live and pool.hook:
            pool.hook("after", idx, line)

    def _send(self, line):
        self.sent.append(line)
        loop = self.pool.world.loop
        loop.do(self.reader.feed_data, (line.rstrip("\n") + "\n").encode("utf-8"))
        loop.run_quiescent()

    def recv_line(self):
        if getattr(self, "dead", False):
            return ""
        lines = self.writer.lines()
        if self.read_pos < len(lines):
            self.read_pos += 1
            return lines[self.read_pos - 1] + "\n"
        return ""

    def close(self, log=True):
        loop = self.pool.world.loop
        if not self.reader.at_eof():
            loop.do(self.reader.feed_eof)
            loop.run_quiescent()
        if log:
            self.pool.log.append(["conn", list(self.sent)])


class FakeSocket:
    """What gwf.backends.local.Client.from_socket needs: makefile('r') / makefile('w') and close()."""

    def __init__(self, conn: Conn):
        self.conn = conn
        self.closed = False

    def makefile(self, encoding=None, mode="r"):
        conn = self.conn

        class _R:
            def readline(self_inner):
                return conn.recv_line()

            def close(self_inner):
                pass

        class _W:
            def __init__(self_inner):
                self_inner.buf = ""

            def write(self_inner, data):
                self_inner.buf += data

            def flush(self_inner):
                data, self_inner.buf = self_inner.buf, ""
                for line in data.splitlines():
                    conn.send_line(line, live=True)

            def close(self_inner):
                pass

        return _R() if "r" in mode else _W()

    def close(self):
        if not self.closed:
            self.closed = True
            self.conn.close(log=True)


def make_connect(live: LivePool, attempts_log):
    def connect(cls, hostname="localhost", port=12345, attempts=20):
        attempts_log.append((hostname, port))
        return cls.from_socket(FakeSocket(live.connect()))

    return connect


# ---------------------------------------------------------------------------------------------- world-level helpers


def with_live(pool, fn):
    """Materialise `pool` in a scratch directory, run fn(live), return (result, new pool dict)."""
    from mc.runner import worker_scratch

    d = tempfile.mkdtemp(dir=worker_scratch("lpool"))
    live = LivePool(pool, d)
    try:
        res = fn(live)
        logdir = os.path.join(d, ".gwf", "logs")
        logs = {f: open(os.path.join(logdir, f), errors="replace").read() for f in sorted(os.listdir(logdir))}
        return res, live.pool_dict(), logs
    finally:
        live.close()
        import shutil

        shutil.rmtree(d, ignore_errors=True)


def latest_task(pool, name):
    """The task the *current or a previous* pool incarnation created at the most recent accepted submission of `name`:
    returns (incarnation, tid) or None."""
    hist = [h for h in pool["summary"].get("history", []) if h[2] == name]
    if not hist:
        return None
    return hist[-1][0], hist[-1][1]


def job_class(pool, name):
    lt = latest_task(pool, name)
    if lt is None:
        return "unknown"
    inc, tid = lt
    if inc != pool["summary"]["incarnation"]:
        return "unknown"  # that pool is gone; its job no longer exists anywhere
    for t in pool["summary"]["tasks"]:
        if t["tid"] == tid:
            return STATE_WORD[t["state"]]
    return "unknown"


def stale_tracked(world):
    """Targets whose tracked id was issued by a previous incarnation of the pool (ids restart from 0: DESIGN D7)."""
    s = world.pool["summary"]
    tracked = (world.tracked or {}).get("local") or {}
    out = []
    for name in tracked:
        lt = latest_task(world.pool, name)
        if lt is not None and lt[0] != s["incarnation"]:
            out.append(name)
    return sorted(out)


def key_part(pool):
    s = pool["summary"]
    # tasks identified by name + order; the incarnation number itself is not observable, only "is the latest task of X in this pool"
    latest = {}
    for inc, tid, name in s.get("history", []):
        latest[name] = (inc == s["incarnation"], tid if inc == s["incarnation"] else None)
    return dict(tasks=[(t["tid"], t["name"], t["state"], t["alive"], t["killed"], t["done"]) for t in s["tasks"]], sem=s["sem"], timers=s["timers"], latest=sorted(latest.items()),
                cores=pool["cores"])
