"""Scenario enumeration for the pool explorer."""
import itertools


def dags(n):
    """deps only on earlier tasks: every subset"""
    per = []
    for i in range(n):
        per.append([tuple(j for j in range(i) if mask >> j & 1) for mask in range(1 << i)])
    return list(itertools.product(*per))


def with_cancels(n, ncancel):
    """op scripts: enqueues in order with `ncancel` cancel ops inserted at every position for every target id
    (incl. a cancel placed before its target's enqueue = unknown id at that time is excluded here; C14 covers it)."""
    base = [("enq", i) for i in range(n)]
    scripts = [base]
    if ncancel >= 1:
        for tgt in range(n):
            for pos in range(tgt + 1, n + 1):
                scripts.append(base[:pos] + [("cancel", tgt)] + base[pos:])
    if ncancel >= 2:
        for t1 in range(n):
            for t2 in range(n):
                for p1 in range(t1 + 1, n + 1):
                    for p2 in range(max(p1, t2 + 1), n + 1):
                        s = base[:p1] + [("cancel", t1)] + base[p1:p2] + [("cancel", t2)] + base[p2:]
                        scripts.append(s)
    return scripts


def scenarios(n_max=3, cores=(1, 2), ncancel=1, time_limits=True, vias=("api",), extras=True):
    out = []
    for n in range(1, n_max + 1):
        for dag in dags(n):
            for c in cores:
                if c > n:
                    continue
                for ops in with_cancels(n, ncancel):
                    for via in vias:
                        for tl in ((None, 5.0) if time_limits else (None,)):
                            # task 0 may also die from a signal nobody in the pool sent (segfault, OOM killer): negative return code
                            tasks = [dict(deps=list(d), codes=(0, -11) if i == 0 else (0, 1), time_limit=(tl if i == 0 else None)) for i, d in enumerate(dag)]
                            out.append(dict(cores=c, tasks=tasks, ops=ops, via=via))
    if extras:
        # start failure / log failure / burst after a skipped dependent / pipelined cancel
        for c in (1, 2):
            out.append(dict(cores=c, tasks=[dict(deps=[], codes=(0,)), dict(deps=[0], codes=(0,)), dict(deps=[], codes=(0, 1))], ops=[("enq", 0), ("enq", 1), ("enq", 2)], via="api", start_fail=(0,)))
            out.append(dict(cores=c, tasks=[dict(deps=[], codes=(0,)), dict(deps=[0], codes=(0,)), dict(deps=[], codes=(0, 1))], ops=[("enq", 0), ("enq", 1), ("enq", 2)], via="api", start_fail=(0,), start_exc="value"))
            out.append(dict(cores=c, tasks=[dict(deps=[], codes=(0,)), dict(deps=[0], codes=(0,))], ops=[("enq", 0), ("enq", 1)], via="api", log_fail=True))
            # the log of one finished task cannot be written while more tasks than cores are ready behind it
            out.append(dict(cores=c, tasks=[dict(deps=[], codes=(0, 1))] + [dict(deps=[], codes=(0,)) for _ in range(c + 1)], ops=[("enq", k) for k in range(c + 2)], via="api", log_fail=(0,)))
            out.append(dict(cores=c, tasks=[dict(deps=[], codes=(0, 1)), dict(deps=[0], codes=(0,)), dict(deps=[], codes=(0,))], ops=[("enq", k) for k in range(3)], via="api", log_fail=(0,)))
            out.append(dict(cores=c, tasks=[dict(deps=[], codes=(0,)) for _ in range(c + 1)] + [dict(deps=[0], codes=(0,))], ops=[("enq", k) for k in range(c + 2)], via="api", log_fail=(1,)))
            out.append(dict(cores=c, tasks=[dict(deps=[], codes=(1,)), dict(deps=[0], codes=(0,)), dict(deps=[], codes=(0,)), dict(deps=[], codes=(0,))],
                            ops=[("enq", 0), ("enq", 1), ("enq", 2), ("enq", 3)], via="api"))
            out.append(dict(cores=c, tasks=[dict(deps=[], codes=(0,), payload=True), dict(deps=[0], codes=(0, 1))], ops=[("enq", 0), ("enq", 1)], via="api",
                            payloads={0: (b"x" * 70000, b"e"), 1: (b"o", b"")}))
            # output that is not valid UTF-8 (Latin-1 text, binary data): logs hold the bytes as written, the task completes
            out.append(dict(cores=c, tasks=[dict(deps=[], codes=(0,), payload=True), dict(deps=[0], codes=(0,))], ops=[("enq", 0), ("enq", 1)], via="api",
                            payloads={0: (b"caf\xe9 \xff\xfe\x00 binary\n", b"\x80\x81 err\n"), 1: (b"", b"")}))
            out.append(dict(cores=c, tasks=[dict(deps=[], codes=(0,), time_limit=5.0), dict(deps=[0], codes=(0,))], ops=[("enq", 0), ("enq", 1)], via="api", kill_race=True))
            # the script left a command in its process group that ignores SIGTERM (e.g. `(trap '' TERM; exec tool) & wait`)
            out.append(dict(cores=c, tasks=[dict(deps=[], codes=(0,), stubborn=True), dict(deps=[0], codes=(0,))], ops=[("enq", 0), ("enq", 1), ("cancel", 0)], via="api"))
            out.append(dict(cores=c, tasks=[dict(deps=[], codes=(0,), stubborn=True, time_limit=5.0), dict(deps=[], codes=(0,))], ops=[("enq", 0), ("enq", 1)], via="api"))
        # the pool is shut down (Scheduler.shutdown) while one task runs, one waits for a core and one waits for a dependency
        for c in (1, 2):
            out.append(dict(cores=c, tasks=[dict(deps=[], codes=(0, 1)), dict(deps=[], codes=(0,)), dict(deps=[0], codes=(0,))], ops=[("enq", 0), ("enq", 1), ("enq", 2), ("shutdown",)], via="api", no_probe=True))
        # a dependency id the pool never issued: a number, and the string form of a live task's id
        out.append(dict(cores=2, tasks=[dict(deps=[], codes=(0, 1)), dict(deps=[], codes=(0,), extra_deps=("0",)), dict(deps=[1], codes=(0,))], ops=[("enq", 0), ("enq", 1), ("enq", 2)], via="api"))
        out.append(dict(cores=2, tasks=[dict(deps=[], codes=(0,)), dict(deps=[0], codes=(0,), extra_deps=(77,)), dict(deps=[1], codes=(0,))], ops=[("enq", 0), ("enq", 1), ("enq", 2)], via="server"))
        out.append(dict(cores=1, tasks=[dict(deps=[], codes=(0,), extra_deps=(77,)), dict(deps=[0], codes=(0,))], ops=[("enq", 0), ("enq", 1)], via="api"))
    return out
