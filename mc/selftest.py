"""Detection self-test: apply a patch to a scratch copy of /repo, (optionally) run the baseline suite there,
run the named checks' quick tier with VERIF_REPO pointing at the copy, expect exit 1 + VIOLATION; remove copy.

usage: python -m mc.selftest [--tests] [--tier quick] PATCH ID [ID...]
"""
import argparse
import os
import shutil
import subprocess
import sys
import tempfile

VERIF = os.path.dirname(os.path.dirname(os.path.abspath(__file__)))


def main():
    ap = argparse.ArgumentParser()
    ap.add_argument("--tests", action="store_true")
    ap.add_argument("--tier", default="quick")
    ap.add_argument("--keep-evidence", action="store_true")
    ap.add_argument("patch")
    ap.add_argument("ids", nargs="+")
    a = ap.parse_args()
    tmp = tempfile.mkdtemp(prefix=f"gwf-mut-x-p{os.getpid()}-", dir="/dev/shm")
    rc_all = 0
    try:
        dst = os.path.join(tmp, "repo")
        subprocess.check_call(["git", "clone", "-q", "/repo", dst])
        # carry over uncommitted changes of /repo's working tree too (checks must see the current tree)
        diff = subprocess.run(["git", "-C", "/repo", "diff", "HEAD"], capture_output=True, text=True).stdout
        if diff.strip():
            subprocess.run(["git", "-C", dst, "apply"], input=diff, text=True, check=True)
        r = subprocess.run(["git", "-C", dst, "apply", os.path.abspath(a.patch)], capture_output=True, text=True)
        if r.returncode != 0:
            r = subprocess.run(["git", "-C", dst, "apply", "--3way", os.path.abspath(a.patch)], capture_output=True, text=True)
        if r.returncode != 0:
            print("PATCH DOES NOT APPLY:", r.stderr)
            return 3
        if a.tests:
            t = subprocess.run(
                ["/venv/bin/python", "-m", "pytest", "-q", "-p", "no:cacheprovider", "--timeout=900", "--continue-on-collection-errors",
                 "-x", "--deselect", "tests/plugins", "tests/test_core.py", "tests/test_workflow.py", "tests/test_filtering.py", "tests/test_config.py",
                 "tests/test_utils.py", "tests/backends/test_local.py"],
                cwd=dst, capture_output=True, text=True, env=dict(os.environ, PYTHONPATH=os.path.join(dst, "src")))
            tail = t.stdout.strip().splitlines()[-1] if t.stdout.strip() else t.stderr[-300:]
            print("baseline suite on mutant:", tail)
        for cid in a.ids:
            ev = os.path.join(VERIF, "evidence", cid + ".json")
            saved = open(ev).read() if os.path.exists(ev) else None
            env = dict(os.environ, VERIF_REPO=dst)
            r = subprocess.run([os.path.join(VERIF, "check"), cid, "--tier", a.tier], capture_output=True, text=True, env=env)
            viol = [l for l in r.stdout.splitlines() if l.startswith("VIOLATION")]
            print(f"{cid}: exit={r.returncode} violations={len(viol)}")
            for l in r.stdout.splitlines():
                if l.startswith("  sig=") or l.startswith("HARNESS") or l.startswith("["):
                    print("   ", l[:400])
            if r.returncode != 1 or not viol:
                rc_all = 1
                print("    NOT DETECTED" if r.returncode == 0 else "    UNEXPECTED EXIT\n" + r.stdout[-1500:] + r.stderr[-1500:])
            if saved is not None and not a.keep_evidence:
                open(ev, "w").write(saved)
            shutil.rmtree(os.path.join(VERIF, "replays", cid), ignore_errors=True)
    finally:
        shutil.rmtree(tmp, ignore_errors=True)
    return rc_all


if __name__ == "__main__":
    sys.exit(main())
