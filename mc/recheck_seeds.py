"""Fast re-check of every filed seed against /repo's current HEAD and the current checks: the patch must still apply and the check of the
seed's own property (quick tier) must still report it. The baseline suite and the demo are not re-run (they were at filing time, see
meta.json); results are merged into seeded/<name>/meta.json (`rechecked`), evidence files are left as they were.

usage: python -m mc.recheck_seeds [names...]      (one scratch clone of /repo under /dev/shm, removed afterwards)"""
import json
import os
import shutil
import subprocess
import sys
import tempfile
import time

VERIF = os.path.dirname(os.path.dirname(os.path.abspath(__file__)))


def run(cmd, **kw):
    return subprocess.run(cmd, capture_output=True, text=True, **kw)


def main():
    names = sys.argv[1:] or sorted(os.listdir(os.path.join(VERIF, "seeded")))
    tmp = tempfile.mkdtemp(prefix=f"gwf-seed-x-p{os.getpid()}-", dir="/dev/shm")
    clone = os.path.join(tmp, "mut")
    run(["git", "clone", "-q", "/repo", clone])
    head = run(["git", "-C", "/repo", "rev-parse", "--short", "HEAD"]).stdout.strip()
    bad = []
    try:
        for n in names:
            d = os.path.join(VERIF, "seeded", n)
            mp = os.path.join(d, "meta.json")
            meta = json.load(open(mp))
            prop = meta["property"]
            run(["git", "-C", clone, "checkout", "-q", "--", "."])
            run(["git", "-C", clone, "clean", "-fdq"])
            r = run(["git", "-C", clone, "apply", os.path.join(d, "patch.diff")])
            if r.returncode != 0:
                print(f"{n}: PATCH DOES NOT APPLY to {head}", flush=True)
                bad.append(n)
                continue
            ev = os.path.join(VERIF, "evidence", prop + ".json")
            saved = open(ev).read() if os.path.exists(ev) else None
            t0 = time.time()
            try:
                r = run([os.path.join(VERIF, "check"), prop, "--tier", "quick"], env=dict(os.environ, VERIF_REPO=clone), timeout=1500)
                rc, out = r.returncode, r.stdout
            except subprocess.TimeoutExpired:
                rc, out = "timeout", ""
            if saved is not None:
                open(ev, "w").write(saved)
            shutil.rmtree(os.path.join(VERIF, "replays", prop), ignore_errors=True)
            viol = [l for l in out.splitlines() if l.startswith("VIOLATION")]
            sigs = [l.strip()[:260] for l in out.splitlines() if l.startswith("  sig=")]
            detected = rc == 1 and bool(viol)
            meta["rechecked"] = dict(repo_head=head, check=prop, exit=rc, violations=len(viol), first=sigs[:1], seconds=round(time.time() - t0, 1))
            det = set(meta.get("detected_by") or [])
            (det.add if detected else det.discard)(prop)
            meta["detected_by"] = sorted(det)
            meta.setdefault("checks", {})[prop] = dict(exit=rc, violations=len(viol), first=sigs[:2])
            json.dump(meta, open(mp, "w"), indent=1)
            print(f"{n}: {prop} exit={rc} violations={len(viol)} {'' if detected else '   <<<<<< NOT DETECTED BY ITS OWN CHECK'} ({time.time() - t0:.0f}s)", flush=True)
            if not detected:
                bad.append(n)
    finally:
        shutil.rmtree(tmp, ignore_errors=True)
    print("not detected by own check / problems:", bad)


if __name__ == "__main__":
    main()
