"""Simulated Slurm / SGE / LSF, written from the schedulers' documented command-line behaviour and
independently of gwf's tables.  One state dict (plain JSON data) per cluster; two front-ends:

 * in-process: `PopenShim` replaces `subprocess` inside gwf.backends.utils (call() stays in the loop);
 * real executables /verif/bin/{sbatch,...} -> `main_exec()` loading/storing $SIMSCHED_STATE.

Abstract job life cycle (driven by the explorer through `Sim.step`):
   PENDING --start--> RUNNING --finish_ok--> DONE | --finish_fail--> FAILED | --timeout--> TIMEOUT
   PENDING/RUNNING --cancel (user command or explorer)--> CANCELLED
`in_queue` says whether the live queue command still lists the job (finished jobs vanish after a while:
explorer action 'forget'). Slurm accounting keeps every job for ever; `acct_lag` makes sacct answer with
the previous state.  A job may carry an explicit display `code` (any documented state code) for C08.
"""
from __future__ import annotations

import copy
import json
import os
import re
import shlex
import sys

ID_SEQ = ["1", "11", "111", "2", "12", "21", "112", "211", "22", "121"]  # some ids are prefixes of others

ACTIVE = ("PENDING", "RUNNING")
FINAL = ("DONE", "FAILED", "TIMEOUT", "CANCELLED")


def new_state(kind, accounting=True, foreign=True):
    st = dict(kind=kind, next=0, jobs={}, order=[], journal=[], calls=0, accounting=accounting, faults={}, uid=1000)
    if foreign:
        # other users' jobs whose ids extend / are extended by ours; they must never influence gwf
        for jid, state in (("1110", "RUNNING"), ("110", "PENDING"), ("9", "FAILED")):
            st["jobs"][jid] = dict(id=jid, name="foreign", state=state, prev=state, deps=None, user="other", in_queue=True,
                                   script="", argv=[], code=None, acct_code=None, acct_lag=False)
            st["order"].append(jid)
    return st


class Sim:
    def __init__(self, state):
        self.s = state

    # ------------------------------------------------------------------ explorer-side API
    @property
    def kind(self):
        return self.s["kind"]

    def jobs(self, mine=True):
        return [self.s["jobs"][j] for j in self.s["order"] if not mine or self.s["jobs"][j]["user"] == "me"]

    def job(self, jid):
        return self.s["jobs"][jid]

    def journal_submits(self):
        return [e for e in self.s["journal"] if e["op"] == "submit" and e.get("accepted")]

    def journal_cancels(self):
        return [e for e in self.s["journal"] if e["op"] == "cancel"]

    def clear_journal(self):
        self.s["journal"] = []

    def dep_status(self, job):
        """'ready' | 'wait' | 'never' for a pending job, by the scheduler's own dependency semantics."""
        deps = job["deps"]
        if not deps:
            return "ready"
        if self.kind == "slurm":
            return _slurm_dep_eval(deps, self.s["jobs"])
        if self.kind == "sge":
            for d in deps:
                j = self.s["jobs"].get(d)
                if j is not None and j["state"] in ACTIVE:
                    return "wait"
            return "ready"
        if self.kind == "lsf":
            return _lsf_eval(deps, self.s["jobs"])
        raise AssertionError

    def enabled(self):
        """Environment transitions enabled now: list of (action, jobid)."""
        acts = []
        for j in self.jobs():
            if j["state"] == "PENDING" and self.dep_status(j) == "ready":
                acts.append(("start", j["id"]))
            if j["state"] == "RUNNING":
                acts += [("finish_ok", j["id"]), ("finish_fail", j["id"]), ("timeout", j["id"])]
            if j["state"] in FINAL and j["in_queue"]:
                acts.append(("forget", j["id"]))
        return acts

    def step(self, action, jid):
        j = self.s["jobs"][jid]
        if action == "start":
            assert j["state"] == "PENDING" and self.dep_status(j) == "ready", (action, j)
            self._set(j, "RUNNING")
        elif action == "finish_ok":
            assert j["state"] == "RUNNING"
            self._set(j, "DONE")
        elif action == "finish_fail":
            assert j["state"] == "RUNNING"
            self._set(j, "FAILED")
        elif action == "timeout":
            assert j["state"] == "RUNNING"
            self._set(j, "TIMEOUT")
        elif action == "cancel":
            assert j["state"] in ACTIVE
            self._set(j, "CANCELLED")
        elif action == "requeue":
            # Slurm requeues a job after e.g. a node failure: same job id, pending again
            assert j["state"] in ("FAILED", "TIMEOUT")
            self._set(j, "PENDING")
            j["in_queue"] = True
        elif action == "forget":
            j["in_queue"] = False
        else:
            raise AssertionError(action)
        self.s["journal"].append(dict(op="env", action=action, id=jid, name=j["name"]))

    def _set(self, j, state):
        j["prev"] = j["state"]
        j["state"] = state
        j["code"] = None
        j["acct_code"] = None

    # ------------------------------------------------------------------ command front-end
    def handle(self, exe, argv, stdin):
        """Returns (rc, stdout, stderr). Applies a planned fault for this call index if any."""
        idx = self.s["calls"]
        self.s["calls"] += 1
        fault = self.s["faults"].get(str(idx)) or self.s["faults"].get(f"{exe}#{self._nth(exe)}")
        self.s.setdefault("exe_count", {})
        self.s["exe_count"][exe] = self.s["exe_count"].get(exe, 0) + 1
        entry = dict(op="call", exe=exe, argv=list(argv), idx=idx)
        if fault == "banner":
            # not a failure: the command works, and the site's submission filter (LSF esub) prints lines of its own around the answer
            entry["fault"] = fault
            self.s["journal"].append(entry)
            fn = getattr(self, "_" + self.kind + "_" + exe)
            rc, out, err = fn(list(argv), stdin or "")
            if rc == 0:
                out = "Memory reservation is (MB): 1024\n" + out + "Job will be run in the default project.\n"
            return rc, out, err
        if fault:
            entry["fault"] = fault
            self.s["journal"].append(entry)
            if fault == "rc1":
                return 1, "", f"{exe}: something went wrong\n"
            if fault == "rc1_silent":  # fails, complains on stdout only (as SGE's qdel does), nothing on stderr
                return 1, f"{exe}: request denied\n", ""
            if fault == "stderr_error":
                return 0, "", f"{exe}: error: Socket timed out on send/recv operation\n"
            if fault == "garbage":
                return 0, "!!garbage!!\n", ""
            if fault == "empty":
                return 0, "", ""
            raise AssertionError(fault)
        self.s["journal"].append(entry)
        fn = getattr(self, "_" + self.kind + "_" + exe, None)
        if fn is None:
            return 127, "", f"{exe}: command not found\n"
        return fn(list(argv), stdin or "")

    def _nth(self, exe):
        return self.s.get("exe_count", {}).get(exe, 0)

    def _new_id(self):
        k = self.s["next"]
        self.s["next"] += 1
        return ID_SEQ[k] if k < len(ID_SEQ) else str(3000 + k)

    def _add_job(self, name, deps, script, argv):
        jid = self._new_id()
        self.s["jobs"][jid] = dict(id=jid, name=name, state="PENDING", prev="PENDING", deps=deps, user="me", in_queue=True,
                                   script=script, argv=argv, code=None, acct_code=None, acct_lag=False)
        self.s["order"].append(jid)
        self.s["journal"].append(dict(op="submit", accepted=True, id=jid, name=name, deps=deps, argv=argv, script=script))
        return jid

    # ------------------------------------------------------------------ Slurm
    def _slurm_sbatch(self, argv, stdin):
        parsable, dep = False, None
        for a in argv:
            if a == "--parsable":
                parsable = True
            elif a.startswith("--dependency="):
                dep = a[len("--dependency="):]
            elif a.startswith("-d") and len(a) > 2 and not a.startswith("--"):
                dep = a[2:]
            else:
                return 1, "", f"sbatch: unrecognized option '{a}'\n"
        name = None
        for line in stdin.splitlines():
            m = re.match(r"#SBATCH\s+(?:--job-name=|-J\s*)(\S+)", line)
            if m:
                name = m.group(1)
        if not stdin.startswith("#!"):
            return 1, "", "sbatch: error: This does not look like a batch script.\n"
        deps = None
        if dep is not None:
            try:
                deps = _slurm_dep_parse(dep)
            except ValueError as e:
                self.s["journal"].append(dict(op="submit", accepted=False, name=name, reason=str(e), argv=argv))
                return 1, "", f"sbatch: error: Batch job submission failed: Job dependency problem\n"
            for _typ, ids in [x for grp in deps["groups"] for x in grp]:
                for i in ids:
                    if i not in self.s["jobs"]:
                        self.s["journal"].append(dict(op="submit", accepted=False, name=name, reason=f"unknown dependency id {i!r}", argv=argv))
                        return 1, "", "sbatch: error: Batch job submission failed: Job dependency problem\n"
        jid = self._add_job(name or "sbatch", deps, stdin, argv)
        return 0, (jid + "\n") if parsable else f"Submitted batch job {jid}\n", ""

    def _slurm_code(self, j, long=False, acct=False):
        st = j["prev"] if (acct and j.get("acct_lag")) else j["state"]
        if acct and j.get("acct_code") and not j.get("acct_lag"):
            return j["acct_code"]
        if not acct and j.get("code"):
            return j["code"]
        short = {"PENDING": "PD", "RUNNING": "R", "DONE": "CD", "FAILED": "F", "TIMEOUT": "TO", "CANCELLED": "CA"}[st]
        lng = {"PENDING": "PENDING", "RUNNING": "RUNNING", "DONE": "COMPLETED", "FAILED": "FAILED", "TIMEOUT": "TIMEOUT",
               "CANCELLED": f"CANCELLED by {self.s['uid']}"}[st]
        return lng if long else short

    def _slurm_squeue(self, argv, stdin):
        noheader, fmt, all_ = False, "%.18i %.9P %.8j %.8u %.2t %.10M %.6D %R", False
        for a in argv:
            if a in ("--noheader", "-h"):
                noheader = True
            elif a.startswith("--format="):
                fmt = a[len("--format="):]
            elif a in ("--all", "-a"):
                all_ = True
            else:
                return 1, "", f"squeue: unrecognized option '{a}'\n"
        lines = []
        if not noheader:
            lines.append(fmt.replace("%i", "JOBID").replace("%t", "ST"))
        for j in self.jobs(mine=False):
            if not j["in_queue"]:
                continue
            lines.append(fmt.replace("%i", j["id"]).replace("%t", self._slurm_code(j)))
        return 0, "".join(l + "\n" for l in lines), ""

    def _slurm_sacct(self, argv, stdin):
        noheader = p2 = alloc = False
        fmt, jobs = "jobid,jobname,partition,account,alloccpus,state,exitcode", None
        it = iter(argv)
        for a in it:
            if a == "--noheader" or a == "-n":
                noheader = True
            elif a == "--parsable2" or a == "-P":
                p2 = True
            elif a == "--allocations" or a == "-X":
                alloc = True
            elif a.startswith("--format="):
                fmt = a[len("--format="):]
            elif a == "--jobs" or a == "-j":
                jobs = next(it, None)
            elif a.startswith("--jobs="):
                jobs = a[len("--jobs="):]
            else:
                return 1, "", f"sacct: unrecognized option '{a}'\n"
        if not self.s["accounting"]:
            return 1, "", "sacct: error: Slurm accounting storage is disabled\n"
        ids = [x for x in (jobs or "").split(",") if x != ""] if jobs is not None else [j["id"] for j in self.jobs()]
        cols = [c.strip().lower() for c in fmt.split(",")]
        out = []
        sep = "|" if p2 else " "
        if not noheader:
            out.append(sep.join(c for c in cols))
        for i in ids:
            j = self.s["jobs"].get(i)
            if j is None or j.get("acct_hidden"):
                continue
            st = self._slurm_code(j, long=True, acct=True)
            rows = [(j["id"], st)]
            if not alloc and (j["state"] != "PENDING"):
                rows.append((j["id"] + ".batch", st.split()[0]))
            for rid, rst in rows:
                vals = {"jobid": rid, "state": rst, "jobname": j["name"]}
                out.append(sep.join(vals.get(c, "") for c in cols))
        return 0, "".join(l + "\n" for l in out), ""

    def _slurm_scancel(self, argv, stdin):
        verbose, ids = False, []
        for a in argv:
            if a in ("--verbose", "-v"):
                verbose = True
            elif a.startswith("-"):
                return 1, "", f"scancel: unrecognized option '{a}'\n"
            else:
                ids.append(a)
        err, rc = [], 0
        for i in ids:
            j = self.s["jobs"].get(i)
            self.s["journal"].append(dict(op="cancel", id=i, known=j is not None, name=j and j["name"], user=j and j["user"]))
            if j is None or not re.fullmatch(r"\d+", i):
                err.append(f"scancel: error: Kill job error on job id {i}: Invalid job id specified")
                rc = 1
            elif j["user"] != "me":
                err.append(f"scancel: error: Kill job error on job id {i}: Access/permission denied")
                rc = 1
            elif j["state"] in ACTIVE:
                if verbose:
                    err.append(f"scancel: Terminating job {i}")
                j["cancel_requested"] = True
            else:
                # real scancel reports this only on stderr (exit code 0) — the reason gwf passes --verbose
                if verbose:
                    err.append(f"scancel: error: Kill job error on job id {i}: Job/step already completing or completed")
        return rc, "", "".join(l + "\n" for l in err)

    # ------------------------------------------------------------------ SGE
    def _sge_qsub(self, argv, stdin):
        terse, hold = False, None
        it = iter(argv)
        for a in it:
            if a == "-terse":
                terse = True
            elif a == "-hold_jid":
                hold = next(it, None)
                if hold is None:
                    return 1, "", "qsub: ERROR! -hold_jid option must have argument\n"
            else:
                return 1, "", f"qsub: ERROR! invalid option argument \"{a}\"\n"
        name = None
        for line in stdin.splitlines():
            m = re.match(r"#\$\s+-N\s+(\S+)", line)
            if m:
                name = m.group(1)
        deps = None
        if hold is not None:
            # job ids or job-name patterns; entries that name no existing job are ignored (not held)
            deps = [x for x in hold.split(",")]
        jid = self._add_job(name or "STDIN", deps, stdin, argv)
        return 0, (jid + "\n") if terse else f'Your job {jid} ("{name}") has been submitted\n', ""

    def _sge_letters(self, j):
        if j.get("code"):
            return j["code"]
        if j["state"] == "PENDING":
            return "hqw" if self.dep_status(j) == "wait" else "qw"
        return "r"

    def _sge_qstat(self, argv, stdin):
        if argv != ["-f", "-xml"] and argv != ["-xml", "-f"] and argv != ["-xml"]:
            return 1, "", f"qstat: ERROR! invalid option argument \"{' '.join(argv)}\"\n"
        run, pend = [], []
        for j in self.jobs(mine=False):
            if j["state"] not in ACTIVE and not j.get("code"):
                continue  # finished jobs leave qstat at once
            if not j["in_queue"]:
                continue
            letters = self._sge_letters(j)
            xml = (f'<job_list state="{"running" if j["state"] == "RUNNING" else "pending"}">'
                   f"<JB_job_number>{j['id']}</JB_job_number><JAT_prio>0.5</JAT_prio><JB_name>{j['name']}</JB_name>"
                   f"<JB_owner>{'me' if j['user'] == 'me' else 'other'}</JB_owner><state>{letters}</state><slots>1</slots></job_list>")
            (run if j["state"] == "RUNNING" else pend).append(xml)
        doc = ("<?xml version='1.0'?>\n<job_info xmlns:xsd=\"http://www.w3.org/2001/XMLSchema\">"
               "<queue_info><Queue-List><name>all.q@n1</name>" + "".join(run) + "</Queue-List></queue_info>"
               "<job_info>" + "".join(pend) + "</job_info></job_info>\n")
        return 0, doc, ""

    def _sge_qdel(self, argv, stdin):
        if len(argv) != 1:
            return 1, "", "qdel: ERROR! usage\n"
        i = argv[0]
        j = self.s["jobs"].get(i)
        self.s["journal"].append(dict(op="cancel", id=i, known=j is not None, name=j and j["name"], user=j and j["user"]))
        if j is None or j["state"] not in ACTIVE:
            return 1, "", f'denied: job "{i}" does not exist\n'
        if j["user"] != "me":
            return 1, "", f'me - you do not have the necessary privileges to delete the job "{i}"\n'
        j["cancel_requested"] = True
        return 0, f"me has registered the job {i} for deletion\n", ""

    # ------------------------------------------------------------------ LSF
    def _lsf_bsub(self, argv, stdin):
        w = None
        it = iter(argv)
        for a in it:
            if a == "-w":
                w = next(it, None)
                if w is None:
                    return 255, "", "bsub: option requires an argument -- w\n"
            else:
                return 255, "", f"bsub: illegal option -- {a}\n"
        name = None
        for line in stdin.splitlines():
            m = re.match(r"#BSUB\s+-J\s+(\S+)", line)
            if m:
                name = m.group(1)
        deps = None
        if w is not None:
            try:
                deps = _lsf_parse(w)
            except ValueError as e:
                self.s["journal"].append(dict(op="submit", accepted=False, name=name, reason=str(e), argv=argv))
                return 255, "", f"{w}: Bad dependency expression. Job not submitted.\n"
            for i in _lsf_ids(deps):
                if i not in self.s["jobs"]:
                    self.s["journal"].append(dict(op="submit", accepted=False, name=name, reason=f"unknown id {i}", argv=argv))
                    return 255, "", f"{i}: Dependency condition invalid. Job not submitted.\n"
        jid = self._add_job(name or "bsub", deps, stdin, argv)
        return 0, f"Job <{jid}> is submitted to queue <normal>.\n", ""

    def _lsf_stat(self, j):
        if j.get("code"):
            return j["code"]
        return {"PENDING": "PEND", "RUNNING": "RUN", "DONE": "DONE", "FAILED": "EXIT", "TIMEOUT": "EXIT", "CANCELLED": "EXIT"}[j["state"]]

    def _lsf_bjobs(self, argv, stdin):
        noheader, fields, ids = False, None, []
        it = iter(argv)
        for a in it:
            if a == "-noheader":
                noheader = True
            elif a == "-o":
                fields = next(it, "")
            elif a == "-a":
                pass
            elif a.startswith("-"):
                return 255, "", f"bjobs: illegal option -- {a}\n"
            else:
                ids.append(a)
        out, err = [], []
        if not noheader:
            out.append("STAT" if fields else "JOBID USER STAT QUEUE")
        sel = ids or [j["id"] for j in self.jobs() if j["state"] in ACTIVE]
        for i in sel:
            j = self.s["jobs"].get(i)
            if j is None or not j["in_queue"]:
                err.append(f"Job <{i}> is not found")
                continue
            cols = (fields or "jobid user stat queue").split()
            vals = {"stat": self._lsf_stat(j), "jobid": j["id"], "user": j["user"], "queue": "normal", "job_name": j["name"]}
            out.append(" ".join(vals.get(c.lower(), "-") for c in cols))
        return 0, "".join(l + "\n" for l in out), "".join(l + "\n" for l in err)

    def _lsf_bkill(self, argv, stdin):
        if len(argv) != 1:
            return 255, "", "bkill: usage\n"
        i = argv[0]
        j = self.s["jobs"].get(i)
        self.s["journal"].append(dict(op="cancel", id=i, known=j is not None, name=j and j["name"], user=j and j["user"]))
        if j is None or not re.fullmatch(r"\d+", i):
            return 255, "", f"Job <{i}>: No matching job found\n"
        if j["user"] != "me":
            return 255, "", f"Job <{i}>: User permission denied\n"
        if j["state"] not in ACTIVE:
            return 255, "", f"Job <{i}>: Job has already finished\n"
        j["cancel_requested"] = True
        return 0, f"Job <{i}> is being terminated\n", ""

    # ------------------------------------------------------------------ carrying out cancellations
    def pending_cancels(self):
        return [j["id"] for j in self.jobs() if j.get("cancel_requested") and j["state"] in ACTIVE]

    def carry_out_cancels(self):
        for jid in self.pending_cancels():
            self.step("cancel", jid)
            self.s["jobs"][jid]["cancel_requested"] = False


# ---------------------------------------------------------------------------------------------------
# dependency languages


def _slurm_dep_parse(spec):
    """--dependency=<type:job_id[:job_id][,type:job_id...]> or with '?' (any). Returns dict(op, groups)."""
    if spec == "":
        raise ValueError("empty dependency")
    if "," in spec and "?" in spec:
        raise ValueError("mixed separators")
    op = "any" if "?" in spec else "all"
    terms = []
    for term in re.split(r"[,?]", spec):
        parts = term.split(":")
        typ, ids = parts[0], parts[1:]
        if typ not in ("after", "afterany", "afternotok", "afterok", "aftercorr", "afterburstbuffer"):
            raise ValueError(f"bad dependency type {typ!r}")
        if not ids:
            raise ValueError("no job ids")
        for i in ids:
            if not re.fullmatch(r"\d+(\+\d+)?", i):
                raise ValueError(f"bad job id {i!r}")
        terms.append((typ, [i.split("+")[0] for i in ids]))
    return dict(op=op, groups=[terms])


def _slurm_term(typ, jid, jobs):
    j = jobs[jid]
    st = j["state"]
    if typ == "after":
        return "ready" if st != "PENDING" else "wait"
    if typ == "afterany":
        return "ready" if st in FINAL else "wait"
    if typ in ("afterok", "aftercorr", "afterburstbuffer"):
        if st == "DONE":
            return "ready"
        return "never" if st in FINAL else "wait"
    if typ == "afternotok":
        if st in ("FAILED", "TIMEOUT", "CANCELLED"):
            return "ready"
        return "never" if st == "DONE" else "wait"
    raise AssertionError(typ)


def _slurm_dep_eval(deps, jobs):
    res = [_slurm_term(typ, i, jobs) for typ, ids in deps["groups"][0] for i in ids]
    if deps["op"] == "all":
        if "never" in res:
            return "never"
        return "wait" if "wait" in res else "ready"
    if "ready" in res:
        return "ready"
    return "wait" if "wait" in res else "never"


def _lsf_tokens(s):
    toks, i = [], 0
    while i < len(s):
        c = s[i]
        if c.isspace():
            i += 1
        elif s.startswith("&&", i) or s.startswith("||", i):
            toks.append(s[i:i + 2])
            i += 2
        elif c in "()!":
            toks.append(c)
            i += 1
        else:
            m = re.match(r"[A-Za-z_0-9\"\*\.]+", s[i:])
            if not m:
                raise ValueError(f"bad character {c!r} in dependency expression")
            toks.append(m.group(0))
            i += len(m.group(0))
    return toks


def _lsf_parse(s):
    toks = _lsf_tokens(s)
    pos = [0]

    def peek():
        return toks[pos[0]] if pos[0] < len(toks) else None

    def eat(t=None):
        x = peek()
        if x is None or (t is not None and x != t):
            raise ValueError(f"expected {t!r} got {x!r}")
        pos[0] += 1
        return x

    def p_or():
        left = p_and()
        while peek() == "||":
            eat()
            left = ["or", left, p_and()]
        return left

    def p_and():
        left = p_not()
        while peek() == "&&":
            eat()
            left = ["and", left, p_not()]
        return left

    def p_not():
        if peek() == "!":
            eat()
            return ["not", p_not()]
        return p_atom()

    def p_atom():
        x = eat()
        if x == "(":
            e = p_or()
            eat(")")
            return e
        if x in ("done", "ended", "exit", "started", "post_done", "post_err"):
            eat("(")
            arg = eat()
            eat(")")
            if not re.fullmatch(r"\d+", arg):
                raise ValueError(f"bad job id {arg!r}")
            return [x, arg]
        if re.fullmatch(r"\d+", x):
            return ["done", x]
        raise ValueError(f"unexpected token {x!r}")

    e = p_or()
    if peek() is not None:
        raise ValueError(f"trailing token {peek()!r}")
    return e


def _lsf_ids(e):
    if e[0] in ("and", "or"):
        return _lsf_ids(e[1]) + _lsf_ids(e[2])
    if e[0] == "not":
        return _lsf_ids(e[1])
    return [e[1]]


def _lsf_eval(e, jobs):
    """three-valued: ready / wait / never"""
    k = e[0]
    if k == "and":
        a, b = _lsf_eval(e[1], jobs), _lsf_eval(e[2], jobs)
        if "never" in (a, b):
            return "never"
        return "wait" if "wait" in (a, b) else "ready"
    if k == "or":
        a, b = _lsf_eval(e[1], jobs), _lsf_eval(e[2], jobs)
        if "ready" in (a, b):
            return "ready"
        return "wait" if "wait" in (a, b) else "never"
    if k == "not":
        a = _lsf_eval(e[1], jobs)
        return {"ready": "never", "never": "ready", "wait": "wait"}[a]  # conservative for non-monotone conditions
    st = jobs[e[1]]["state"]
    if k in ("done", "post_done"):
        return "ready" if st == "DONE" else ("never" if st in FINAL else "wait")
    if k in ("exit", "post_err"):
        return "ready" if st in ("FAILED", "TIMEOUT", "CANCELLED") else ("never" if st == "DONE" else "wait")
    if k == "ended":
        return "ready" if st in FINAL else "wait"
    if k == "started":
        return "ready" if st != "PENDING" else "wait"
    raise AssertionError(k)


# ---------------------------------------------------------------------------------------------------
# front-end 1: in-process replacement for `subprocess` / `shutil` in gwf.backends.utils

EXES = {
    "slurm": ("sbatch", "squeue", "sacct", "scancel", "sinfo"),
    "sge": ("qsub", "qstat", "qdel"),
    "lsf": ("bsub", "bjobs", "bkill"),
}


class PopenShim:
    """Stands in for the `subprocess` module object inside gwf.backends.utils."""

    PIPE = -1

    def __init__(self, sim: Sim, hook=None):
        self.sim = sim
        self.hook = hook  # hook(phase, idx, exe, argv): phase in 'before'/'after'; may raise to simulate a crash

    def Popen(self, argv, stdout=None, stderr=None, stdin=None, universal_newlines=False, **kw):
        shim = self

        class _P:
            returncode = None

            def communicate(self_inner, input=None):
                exe = os.path.basename(argv[0])
                idx = shim.sim.s["calls"]
                if shim.hook:
                    shim.hook("before", idx, exe, argv[1:])
                rc, out, err = shim.sim.handle(exe, argv[1:], input)
                self_inner.returncode = rc
                if shim.hook:
                    shim.hook("after", idx, exe, argv[1:])
                return out, err

        return _P()


class WhichShim:
    def __init__(self, sim: Sim, available=None):
        self.sim = sim
        self.available = available

    def which(self, name, *a, **kw):
        # every scheduler's commands "exist"; one that does not belong to the simulated cluster answers 127 (and is journaled),
        # which is how the checks see *which* backend gwf selected
        exes = [e for v in EXES.values() for e in v] if self.available is None else self.available
        return f"/sim/bin/{name}" if name in exes else None


# ---------------------------------------------------------------------------------------------------
# front-end 2: real executables (fresh-process tier)


def main_exec():
    exe = os.path.basename(sys.argv[0])
    path = os.environ["SIMSCHED_STATE"]
    with open(path) as f:
        state = json.load(f)
    sim = Sim(state)
    stdin = "" if sys.stdin.isatty() else sys.stdin.read()
    rc, out, err = sim.handle(exe, sys.argv[1:], stdin)
    tmp = path + ".tmp"
    with open(tmp, "w") as f:
        json.dump(state, f)
    os.replace(tmp, path)
    sys.stdout.write(out)
    sys.stderr.write(err)
    sys.exit(rc)
