"""C12 — local worker pool, decided by E3 (mc/poolx.py): deviation-bounded exhaustive exploration of the real
gwf.backends.local.Scheduler / Server on a virtual event loop. See mc/poolx.py for the monitors of this property."""
from mc import poolcheck

ID = "C12"
LEVEL = "model_checking"


def pool_batch(acc, batch, **kw):
    poolcheck.pool_batch(acc, batch, **kw)


def prune_validation_batch(acc, batch, **kw):
    poolcheck.prune_validation_batch(acc, batch, **kw)


def real_trace_batch(acc, batch, **kw):
    poolcheck.real_trace_batch(acc, batch, **kw)


def real_kill_batch(acc, batch, **kw):
    poolcheck.real_kill_batch(acc, batch, **kw)


def cli_local_batch(acc, batch):
    """The pool as `gwf run` uses it (real Client over the bridge): four independent targets that each ask for more cores than the 2-core
    pool has are run, every order in which the live processes may exit, then the source changes and they are run again. At no time are
    more task processes alive than the pool has cores, and every target gets to run."""
    from mc import cliworld as CW
    from mc import e2

    for rounds in batch:
        w = CW.init_world("wide4c", "local")
        trace = []
        problems = []
        for rnd in range(rounds):
            w, r = CW.apply_action(w, ("gwf", ["run"]))
            trace.append(["gwf", ["run"]])
            acc.extra["invocations"] += 1
            if r.exit_code != 0 or r.crashed():
                problems.append(f"run failed: {r.exc or r.err_summary()}")
                break
            # every exit order (BFS with dedup), keep one terminal per distinct state
            seen, frontier, terminals = set(), [(w, list(trace))], []
            while frontier:
                nxt = []
                for wx, tr in frontier:
                    acts = [a for a in CW.enabled_env(wx, kinds=("finish_ok",)) if a[1] == "exit"]
                    if not acts:
                        terminals.append((wx, tr))
                        continue
                    for a in acts:
                        w2, _ = CW.apply_action(wx, a)
                        ml = w2.pool["summary"].get("max_live", 0)
                        if ml > w2.pool["cores"]:
                            problems.append(f"{ml} task processes alive at once on a pool of {w2.pool['cores']} cores after {tr + [list(a)]}")
                        k = e2.world_key(w2.copy().normalize())
                        if k not in seen:
                            seen.add(k)
                            nxt.append((w2, tr + [list(a)]))
                frontier = nxt
                acc.tick()
            acc.extra["transitions"] += len(seen)
            w, trace = terminals[0]
            stuck = [t["name"] for t in w.pool["summary"]["tasks"] if t["state"] in ("SUBMITTED", "RUNNING")]
            if stuck:
                problems.append(f"tasks never ran although every process exited: {stuck}")
            w, _ = CW.apply_action(w, ("modify", "src"))
            trace.append(["modify", "src"])
        case = dict(kind="cli-local", rounds=rounds)
        acc.case(key=f"cli-local-{rounds}", outcome=f"cli-local rounds={rounds} ok={not problems}", sample=case)
        if problems:
            acc.violation(sig=dict(kind="cli-local", what=problems[0].split(" ")[1] + " " + problems[0].split(" ")[2]), case=case, observed=problems[:5], msg=f"local pool through `gwf run`, {rounds} round(s): {problems[:2]}")


def run(ctx):
    import mc.checks.c12 as me

    poolcheck.run_pool(ctx, me, ID)
    ctx.pmap(me, "cli_local_batch", [1, 2, 3], chunk=1)


def replay(case):
    if case.get("kind") == "cli-local":
        from mc.runner import Acc

        acc = Acc()
        cli_local_batch(acc, [case["rounds"]])
        return acc.violations
    return poolcheck.replay_pool(case, ID)
