"""C09 — interrupted runs neither forget nor duplicate jobs the scheduler accepted.

E4 fault / crash-point enumeration on the real `gwf run`:
  * faults: the k-th scheduler command of the run (state queries and every submission) x {non-zero exit, exit 0 with
    'error:' on stderr, exit 0 with garbage stdout, exit 0 with empty stdout}; the simulator creates no job in any of them;
    plus a Python exception raised inside the k-th command; plus (bsub only) a *successful* submission whose answer is surrounded by
    lines a site's submission filter prints;
  * write faults: the k-th file the run opens for writing (state files, script copies) fails with ENOSPC;
  * crash snapshots: the persistent state (project directory + scheduler) exactly as `kill -9` would leave it before and
    after every scheduler command and at open / every write / close / the publishing rename of each state-file write (Python-level buffered but
    unflushed bytes are lost because the snapshot copies what is on disk at that instant).
Every faulted outcome / snapshot becomes the initial state of follow-up `gwf status` and `gwf run`:
  (a) both start normally (exit 0, no traceback);
  (b) the follow-up run submits no target whose accepted job is still pending/running;
  (c) what it does submit carries prerequisites naming the latest accepted, still active jobs of its direct dependencies;
  (d) a spec-hash record exists only for targets the scheduler accepted a job for.
"""
import json

from mc import cliworld as CW
from mc import simsched
from mc import world as W
from mc.checks import c07

ID = "C09"
LEVEL = "fault_enumeration"
FAULT_KINDS = ("rc1", "rc1_silent", "stderr_error", "garbage", "empty", "exception")
QUERY_EXES = ("squeue", "sacct", "qstat", "bjobs")


class Boom(RuntimeError):
    pass


def base_recipe(meta):
    wf0 = CW.WORKFLOWS[meta["wf"]]()
    produced = {o for t in wf0.targets for o in t.flat("outputs")}
    first = next(t.name for t in wf0.targets if not (set(t.flat("inputs")) & produced))  # a target without dependencies (not necessarily the first one defined)
    acts = []
    if meta["init"] == "inflight":
        acts.append(("gwf", ["run", first]))
        if meta.get("started"):
            acts.append(("env", "start", first))
    if meta["init"] == "failedhist":
        # the first target already has a tracked job from an earlier invocation, and that job failed: this run submits it again
        acts += [("gwf", ["run", first]), ("env", "start", first), ("env", "finish_fail", first)]
    return dict(wf=meta["wf"], backend=meta["backend"], actions=acts, hashing=True, accounting=meta.get("accounting", True))


def base_world(meta):
    return CW.build(**base_recipe(meta))


def record_calls(world, meta=None):
    from mc.errors import SetupFailed

    with W.Session(world) as s:
        r = s.gwf(["run"])
        calls = [(e["idx"], e["exe"]) for e in s.sim.s["journal"] if e["op"] == "call"]
    if r.exit_code != 0 or r.crashed():
        rec = base_recipe(meta) if meta else dict(wf="?", backend=world.backend(), actions=[])
        rec["actions"] = [list(a) for a in rec["actions"]] + [["gwf", ["run"]]]
        raise SetupFailed(rec, r.as_dict(), f"an undisturbed `gwf run` failed: {r.exc or r.err_summary()}")
    return calls


def followups(acc, w1, base, case, meta, init_hash_names):
    """w1: state left by the interrupted run. Checks (a)-(d)."""
    backend = meta["backend"]

    def viol(what, observed, **sig):
        acc.violation(sig=dict(what=what, backend=backend, **{k: v for k, v in case.items() if k in ("kind", "fault", "exe", "event", "phase")}, **sig), case=dict(meta=meta, **case), observed=observed,
                      msg=f"[{meta['wf']}/{backend}/{meta['init']}] interruption {json.dumps({k: v for k, v in case.items()})}: {what}: {json.dumps(observed, default=str)[:500]}")

    # (d) hash records only for accepted targets
    rec = w1.hashes if isinstance(w1.hashes, dict) else {}
    accepted_names = {j["name"] for j in w1.sim["jobs"].values() if j["user"] == "me"}
    bad = sorted(n for n in rec if n not in accepted_names and n not in init_hash_names)
    if bad:
        viol("spec hash recorded for a target the scheduler never accepted", dict(records=sorted(rec), accepted=sorted(accepted_names)))
    active_before = {j["name"] for j in w1.sim["jobs"].values() if j["user"] == "me" and j["state"] in simsched.ACTIVE}
    with W.Session(w1) as s:
        rs = s.gwf(["status"])
        acc.extra["invocations"] += 1
    if rs.exit_code != 0 or rs.crashed():
        viol("the next `gwf status` does not start normally", dict(exit=rs.exit_code, exc=rs.exc, err=rs.err_summary()), cmd="status")
        return
    with W.Session(w1) as s:
        rr = s.gwf(["run"])
        acc.extra["invocations"] += 1
        subs = [e["name"] for e in s.sim.journal_submits()]
        w2 = s.snapshot()
    if rr.exit_code != 0 or rr.crashed():
        viol("the next `gwf run` does not start normally", dict(exit=rr.exit_code, exc=rr.exc, err=rr.err_summary()), cmd="run")
        return
    dup = sorted(set(subs) & active_before)
    if dup:
        # which window? the only irreducible one: the scheduler has accepted the most recent submission and gwf was killed
        # before that id reached the tracked file
        mine = [w1.sim["jobs"][j] for j in w1.sim["order"] if w1.sim["jobs"][j]["user"] == "me"]
        last = mine[-1] if mine else None
        tracked_now = (w1.tracked or {}).get(backend) or {}
        window = "other"
        if case.get("kind") == "crash" and last is not None and dup == [last["name"]] and (not isinstance(tracked_now, dict) or tracked_now.get(last["name"]) != last["id"]):
            others_ok = all(isinstance(tracked_now, dict) and tracked_now.get(j["name"]) == j["id"] for j in mine[:-1] if j["state"] in simsched.ACTIVE and j["name"] != last["name"])
            if others_ok:
                window = "last-accepted-job-not-yet-recorded"
        viol("second job submitted for a target whose accepted job is still pending/running", dict(duplicated=dup, submitted=subs,
             tracked=tracked_now, scheduler_active=sorted(active_before)), n=len(dup), window=window)
    c07.annotate(w1, w2)
    for jid in w2.sim["order"]:
        j = w2.sim["jobs"][jid]
        if jid in w1.sim["jobs"] or j["user"] != "me" or j["name"] in dup:
            continue
        ids, wellformed = c07.spec_ids(w2.sim, j)
        if sorted(ids) != sorted(j["must_wait"]) or not wellformed:
            viol("follow-up submission does not name the accepted jobs as prerequisites", dict(target=j["name"], argv=j["argv"], must_wait=j["must_wait"]))
    acc.case(key=None, outcome=f"{backend} followup submitted={len(subs)} dup={len(dup)}", nontrivial=False)


def faults2_batch(acc, batch):
    """Sequences of two interruptions: every single fault in the first run, then every single fault in the follow-up run,
    then the checks of `followups` on what is left (thorough tier)."""
    for meta in batch:
        base = base_world(meta)
        init_hash_names = set(base.hashes or {})
        calls = record_calls(base, meta)
        for idx, exe in calls:
            for kind in ("rc1", "stderr_error", "garbage", "exception"):
                if exe in QUERY_EXES and kind != "rc1":
                    continue  # a failing query aborts the run before anything happens: one kind is enough as a first interruption
                w0 = base.copy()
                with W.Session(w0) as s:
                    if kind == "exception":
                        s.sim_hook = (lambda phase, i, e, argv, idx=idx: (_ for _ in ()).throw(Boom("injected")) if phase == "before" and i == idx else None)
                    else:
                        s.sim.s["faults"] = {str(idx): kind}
                    s.gwf(["run"])
                    w1 = s.snapshot()
                w1.sim["faults"] = {}
                w1.normalize()
                try:
                    calls2 = record_calls_tolerant(w1)
                except Exception:
                    continue
                for idx2, exe2 in calls2:
                    for kind2 in ("rc1", "stderr_error"):
                        if exe2 in QUERY_EXES and kind2 == "stderr_error":
                            continue
                        case = dict(kind="fault2", first=[idx, exe, kind], idx=idx2, exe=exe2, fault=kind2)
                        w1b = w1.copy()
                        with W.Session(w1b) as s:
                            s.sim.s["faults"] = {str(idx2): kind2}
                            s.gwf(["run"])
                            in_run = [e["name"] for e in s.sim.journal_submits()]
                            w2 = s.snapshot()
                        active_w1 = {j["name"] for j in w1.sim["jobs"].values() if j["user"] == "me" and j["state"] in simsched.ACTIVE}
                        dup_now = sorted(set(in_run) & active_w1)
                        if dup_now:
                            acc.violation(sig=dict(what="the faulted run itself submitted a second job for a target whose accepted job is still pending/running", backend=meta["backend"], kind="fault2", exe=exe2, fault=kind2),
                                          case=dict(meta=meta, **case), observed=dict(duplicated=dup_now, submitted=in_run), msg=f"[{meta}] second interruption {case}: duplicated {dup_now}")
                        w2.sim["faults"] = {}
                        w2.normalize()
                        acc.case(key=json.dumps(dict(meta=meta, **case), sort_keys=True), outcome=f"fault2 {exe}/{kind} then {exe2}/{kind2}", sample=None)
                        followups(acc, w2, base, case, meta, init_hash_names)


_EXPECTED_CACHE = {}


def in_run_expected(base):
    """Names an undisturbed `gwf run` submits from this state (memoised per state)."""
    k = W.sha1(json.dumps([base.semantic(), sorted(base.sim["jobs"]), base.wf.key()], sort_keys=True, default=str))
    if k not in _EXPECTED_CACHE:
        with W.Session(base.copy()) as s:
            s.gwf(["run"])
            _EXPECTED_CACHE[k] = {e["name"] for e in s.sim.journal_submits()}
    return _EXPECTED_CACHE[k]


def record_calls_tolerant(world):
    with W.Session(world) as s:
        s.gwf(["run"])
        return [(e["idx"], e["exe"]) for e in s.sim.s["journal"] if e["op"] == "call"]


def faults_batch(acc, batch):
    for meta in batch:
        base = base_world(meta)
        init_hash_names = set(base.hashes or {})
        calls = record_calls(base, meta)
        for idx, exe in calls:
            for kind in FAULT_KINDS + (("banner",) if exe == "bsub" else ()):
                if kind == "empty" and exe in ("squeue", "bjobs", "sacct"):
                    continue  # an empty answer from a query command is not a fault: it is how the scheduler says "no such job"
                case = dict(kind="fault", idx=idx, exe=exe, fault=kind)
                w0 = base.copy()
                with W.Session(w0) as s:
                    if kind == "exception":
                        def hook(phase, i, e, argv, idx=idx):
                            if phase == "before" and i == idx:
                                raise Boom("injected")
                        s.sim_hook = hook
                    else:
                        s.sim.s["faults"] = {str(idx): kind}
                    r = s.gwf(["run"])
                    acc.extra["invocations"] += 1
                    in_run = [e["name"] for e in s.sim.journal_submits()]
                    w1 = s.snapshot()
                # the interrupted run itself must not duplicate a job that was accepted before it and is still pending/running
                active_base = {j["name"] for j in base.sim["jobs"].values() if j["user"] == "me" and j["state"] in simsched.ACTIVE}
                dup_now = sorted(set(in_run) & active_base)
                if dup_now:
                    acc.violation(sig=dict(what="the faulted run itself submitted a second job for a target whose accepted job is still pending/running", backend=meta["backend"], kind="fault", exe=exe, fault=kind),
                                  case=dict(meta=meta, **case), observed=dict(duplicated=dup_now, submitted=in_run),
                                  msg=f"[{meta['wf']}/{meta['backend']}/{meta['init']}] {exe} #{idx} failing with {kind}: the run went on and submitted {in_run} although {sorted(active_base)} are still in flight")
                w1.sim["faults"] = {}
                w1.normalize()
                # what the interrupted run did submit must itself be in order: every job names the accepted, still active jobs of its direct
                # dependencies (a run that carries on after a rejected submission sends dependents with stale or missing prerequisites)
                c07.annotate(base, w1)
                for jid in w1.sim["order"]:
                    j = w1.sim["jobs"][jid]
                    if jid in base.sim["jobs"] or j["user"] != "me":
                        continue
                    ids, wellformed = c07.spec_ids(w1.sim, j)
                    deps_of = {t.name: {d.name for d in w1.wf.targets if set(d.flat("outputs")) & set(t.flat("inputs"))} for t in w1.wf.targets}
                    accepted_now = {w1.sim["jobs"][x]["name"] for x in w1.sim["order"] if x not in base.sim["jobs"] and w1.sim["jobs"][x]["user"] == "me"}
                    unmet = sorted(d for d in deps_of.get(j["name"], ()) if d in in_run_expected(base) and d not in accepted_now and d not in active_base)
                    if sorted(ids) != sorted(j["must_wait"]) or not wellformed or unmet:
                        acc.violation(sig=dict(what="the interrupted run submitted a job with wrong prerequisites or ahead of a dependency that was not accepted", backend=meta["backend"], kind="fault", exe=exe, fault=kind),
                                      case=dict(meta=meta, **case), observed=dict(job=j["name"], argv=j["argv"], must_wait=j["must_wait"], named=ids, dependencies_not_accepted=unmet),
                                      msg=f"[{meta['wf']}/{meta['backend']}/{meta['init']}] {exe} #{idx} failing with {kind}: job {j['name']} submitted with {j['argv']}; must wait for {j['must_wait']}; dependencies this run should have submitted first but that were not accepted: {unmet}")
                acc.case(key=json.dumps(dict(meta=meta, **case), sort_keys=True), outcome=f"fault {exe} {kind} exit={r.exit_code} crash={r.crashed()}", sample=dict(meta=meta, **case))
                followups(acc, w1, base, case, meta, init_hash_names)
        # an exception at a file-system write: the k-th file gwf opens for writing during the run (state files, the script
        # copies some backends keep) cannot be created (ENOSPC)
        with W.Session(base.copy()) as s:
            s.file_hook = lambda event, path: None
            s.gwf(["run"])
            opens = list(s.write_opens)
        active_base = {j["name"] for j in base.sim["jobs"].values() if j["user"] == "me" and j["state"] in simsched.ACTIVE}
        for k, path in enumerate(opens):
            fname = path.rsplit("/", 1)[-1]
            fname = fname.split(".tmp")[0] if ".tmp" in fname else fname
            case = dict(kind="fault", idx=k, exe="open:" + fname, fault="enospc")
            with W.Session(base.copy()) as s:
                s.file_fault_at = k
                r = s.gwf(["run"])
                acc.extra["invocations"] += 1
                in_run = [e["name"] for e in s.sim.journal_submits()]
                w1 = s.snapshot()
            dup_now = sorted(set(in_run) & active_base)
            if dup_now:
                acc.violation(sig=dict(what="the faulted run itself submitted a second job for a target whose accepted job is still pending/running", backend=meta["backend"], kind="fault", exe=case["exe"], fault="enospc"),
                              case=dict(meta=meta, **case), observed=dict(duplicated=dup_now, submitted=in_run), msg=f"[{meta}] {case}: duplicated {dup_now}")
            w1.normalize()
            acc.case(key=json.dumps(dict(meta=meta, **case), sort_keys=True), outcome=f"fault open {fname.split('.')[-1]} exit={r.exit_code} crash={r.crashed()}", sample=dict(meta=meta, **case))
            followups(acc, w1, base, case, meta, init_hash_names)


def crash_batch(acc, batch):
    for meta in batch:
        base = base_world(meta)
        init_hash_names = set(base.hashes or {})
        snaps = []
        with W.Session(base) as s:
            def shook(phase, i, exe, argv):
                w = s.snapshot()
                snaps.append((dict(kind="crash", event="sched", phase=phase, idx=i, exe=exe), w))

            def fhook(event, path):
                w = s.snapshot()
                snaps.append((dict(kind="crash", event="file-" + event, idx=len(snaps), file=path.rsplit("/", 1)[-1]), w))

            s.sim_hook = shook
            s.file_hook = fhook
            r = s.gwf(["run"])
            acc.extra["invocations"] += 1
        if r.exit_code != 0 or r.crashed():
            from mc.errors import SetupFailed

            rec = base_recipe(meta)
            rec["actions"] = [list(a) for a in rec["actions"]] + [["gwf", ["run"]]]
            raise SetupFailed(rec, r.as_dict(), f"an undisturbed `gwf run` failed: {r.exc or r.err_summary()}")
        seen = set()
        for case, w1 in snaps:
            w1.normalize()
            k = json.dumps(dict(case, idx=0), sort_keys=True) + W.sha1(json.dumps([w1.semantic(), sorted(w1.sim["jobs"])], sort_keys=True, default=str))
            acc.case(key=json.dumps(dict(meta=meta, **case), sort_keys=True), outcome=f"crash {case['event']}", sample=dict(meta=meta, **case))
            if k in seen:
                continue
            seen.add(k)
            followups(acc, w1, base, case, meta, init_hash_names)


def followups_local(acc, w1, case, meta, init_hash_names):
    """(a), (b), (d) for the local backend (the pool's own table is the truth about accepted tasks)."""
    def viol(what, observed, **sig):
        acc.violation(sig=dict(what=what, backend="local", **{k: v for k, v in case.items() if k in ("kind", "fault", "event", "phase")}, **sig), case=dict(meta=meta, **case), observed=observed,
                      msg=f"[{meta['wf']}/local/{meta['init']}] interruption {json.dumps(case)}: {what}: {json.dumps(observed, default=str)[:500]}")

    tasks = w1.pool["summary"]["tasks"]
    active_before = {t["name"] for t in tasks if t["state"] in ("SUBMITTED", "RUNNING")}
    accepted = {h[2] for h in w1.pool["summary"].get("history", [])}
    rec = w1.hashes if isinstance(w1.hashes, dict) else {}
    bad = sorted(n for n in rec if n not in accepted and n not in init_hash_names)
    if bad:
        viol("spec hash recorded for a target the scheduler never accepted", dict(records=sorted(rec), accepted=sorted(accepted)))
    with W.Session(w1) as s:
        rs = s.gwf(["status"])
    if rs.exit_code != 0 or rs.crashed():
        viol("the next `gwf status` does not start normally", dict(exit=rs.exit_code, exc=rs.exc, err=rs.err_summary()), cmd="status")
        return
    with W.Session(w1) as s:
        rr = s.gwf(["run"])
        w2 = s.snapshot()
    acc.extra["invocations"] += 2
    if rr.exit_code != 0 or rr.crashed():
        viol("the next `gwf run` does not start normally", dict(exit=rr.exit_code, exc=rr.exc, err=rr.err_summary()), cmd="run")
        return
    n = len(w1.pool["summary"].get("history", []))
    subs = [h[2] for h in w2.pool["summary"].get("history", [])[n:]]
    dup = sorted(set(subs) & active_before)
    if dup:
        tracked_now = (w1.tracked or {}).get("local") or {}
        hist = w1.pool["summary"].get("history", [])
        last = hist[-1] if hist else None
        window = "other"
        if (case.get("kind") == "crash" or case.get("fault") == "response-lost") and last is not None and dup == [last[2]] and tracked_now.get(last[2]) != last[1]:
            window = "last-accepted-job-not-yet-recorded"
        viol("second job submitted for a target whose accepted job is still pending/running", dict(duplicated=dup, submitted=subs, tracked=tracked_now, pool=tasks), n=len(dup), window=window)
    acc.case(key=None, outcome=f"local followup submitted={len(subs)} dup={len(dup)}", nontrivial=False)


def local_batch(acc, batch):
    for meta in batch:
        base = CW.init_world(meta["wf"], "local", hashing=True)
        if meta["init"] == "inflight":
            base, r = CW.apply_action(base, ("gwf", ["run", base.wf.names()[0]]))
        base.normalize()
        init_hash_names = set(base.hashes or {})
        with W.Session(base) as s:
            s.gwf(["run"])
            nreq = s.live.req_count
        # faults: the connection breaks at the k-th request
        for k, fk in [(k, fk) for k in range(nreq) for fk in ("connection-reset", "response-lost")]:
            case = dict(kind="fault", idx=k, fault=fk)
            with W.Session(base) as s:
                if fk == "connection-reset":
                    s.live.fault_at = k
                else:
                    s.live.lost_reply_at = k
                r = s.gwf(["run"])
                w1 = s.snapshot()
            acc.extra["invocations"] += 1
            acc.case(key=json.dumps(dict(meta=meta, **case), sort_keys=True), outcome=f"local fault exit={r.exit_code}", sample=dict(meta=meta, **case))
            followups_local(acc, w1.normalize(), case, meta, init_hash_names)
        # crash snapshots around every request and every state-file write
        snaps = []
        with W.Session(base) as s:
            s.live.hook = lambda phase, i, line: snaps.append((dict(kind="crash", event="request", phase=phase, idx=i), s.snapshot()))
            s.file_hook = lambda event, path: snaps.append((dict(kind="crash", event="file-" + event, idx=len(snaps), file=path.rsplit("/", 1)[-1]), s.snapshot()))
            s.gwf(["run"])
        seen = set()
        for case, w1 in snaps:
            w1.normalize()
            k = json.dumps(dict(case, idx=0), sort_keys=True) + W.sha1(json.dumps([w1.semantic(), w1.pool["summary"]["tasks"]], sort_keys=True, default=str))
            acc.case(key=json.dumps(dict(meta=meta, **case), sort_keys=True), outcome=f"local crash {case['event']}", sample=dict(meta=meta, **case))
            if k in seen:
                continue
            seen.add(k)
            followups_local(acc, w1, case, meta, init_hash_names)


def scenarios(quick):
    out = []
    for wf in ("chain", "fork"):
        for be in ("slurm", "sge", "lsf"):
            for init in ("fresh", "inflight"):
                if quick and wf == "fork" and init == "fresh" and be != "slurm":
                    continue
                out.append(dict(wf=wf, backend=be, init=init))
                if be == "slurm" and init == "inflight":
                    out.append(dict(wf=wf, backend=be, init=init, accounting=False))
    out += [dict(wf="chain", backend=be, init="failedhist") for be in (("slurm", "lsf") if quick else ("slurm", "sge", "lsf"))]
    if not quick:
        out += [dict(wf=wf, backend=be, init="failedhist") for wf in ("fork", "diamond") for be in ("slurm", "sge", "lsf")]
        out += [dict(wf="diamond", backend=be, init=init, started=st) for be in ("slurm", "sge", "lsf") for init, st in (("fresh", False), ("inflight", False), ("inflight", True))]
        out += [dict(wf=wf, backend=be, init="inflight", started=True) for wf in ("chain", "fork") for be in ("slurm", "sge", "lsf")]
        out += [dict(wf="diamond", backend="slurm", init="inflight", accounting=False)]
        out += [dict(wf=wf, backend=be, init=init, started=st) for wf in ("shortcut", "topdown", "twocomp") for be in ("slurm", "sge", "lsf") for init, st in (("fresh", False), ("inflight", False), ("inflight", True))]
    return out


def run(ctx):
    import mc.checks.c09 as me

    sc = scenarios(ctx.tier == "quick")
    ctx.pmap(me, "faults_batch", sc, chunk=1)
    ctx.pmap(me, "crash_batch", sc, chunk=1)
    if ctx.tier != "quick":
        ctx.pmap(me, "faults2_batch", sc, chunk=1)
    ctx.pmap(me, "local_batch", [dict(wf=wf, backend="local", init=init) for wf in ("chain", "fork") for init in ("fresh", "inflight")], chunk=1)
    ctx.rule = ("case = (scenario, interaction index, fault kind) or (scenario, crash point: before/after a scheduler command, open/write/close of a state file); "
                "each followed by `gwf status` and `gwf run` on the resulting state")
    ctx.bound = dict(scenarios=len(sc), fault_kinds=list(FAULT_KINDS), crash_points="before/after every scheduler command; open, every write, close, rename of every state-file write", write_faults="every open-for-writing of the run fails with ENOSPC")
    ctx.assumptions = ["kill = process death (page cache survives; Python buffers do not)", "a failing scheduler command creates no job (all four kinds)", "scheduler simulators"]


def replay(case):
    from mc.runner import Acc

    acc = Acc()
    meta = case["meta"]
    if meta.get("backend") == "local":
        a2 = Acc()
        local_batch(a2, [meta])
        keys = ("kind", "fault", "event", "phase", "idx")
        return [v for v in a2.violations if all(v["case"].get(k) == case.get(k) for k in keys if k in case)]
    if case["kind"] == "fault2":
        a2 = Acc()
        faults2_batch(a2, [meta])
        return [v for v in a2.violations if v["case"].get("first") == case.get("first") and v["case"].get("idx") == case.get("idx") and v["case"].get("fault") == case.get("fault")]
    if case["kind"] == "fault":
        a2 = Acc()
        faults_batch(a2, [meta])
        vs = a2.violations
    else:
        a2 = Acc()
        crash_batch(a2, [meta])
        vs = a2.violations
    keys = ("kind", "fault", "exe", "event", "phase", "idx")
    return [v for v in vs if all(v["case"].get(k) == case.get(k) for k in keys if k in case)]
