"""C01 — up-to-date decision = make semantics on files, timestamps, spec; independent of container shape.

E1: bounded-exhaustive enumeration against ref.plan.
 (a) 'single': one target, k_in<=K, k_out<=K paths, every mtime assignment over {missing,1..3} (inputs always
     exist), every container shape for each side, hashing off/none/same/diff, backend unknown/completed
     (tracked id the scheduler reports COMPLETED, or no longer knows).
 (b) 'wf': every valid workflow over n targets / m files x every file state -> whole status map and the
     set of submissions of a run.
 (c) 'cli': real files + `gwf status` + `gwf run` on a simulated Slurm for a sub-bound of (a).
"""
import itertools

from mc import gwfh
from mc.ref import plan as P

ID = "C01"
LEVEL = "exploration"

WD = gwfh.WD


class Reiterable:
    """A user-defined container: iterable any number of times, but neither a Mapping nor a Sequence nor a Set."""

    def __init__(self, items):
        self._items = list(items)

    def __iter__(self):
        return iter(self._items)


NOCLI = ("dictvalues", "customiter", "dictvalues_nested", "userdict", "mappingproxy")  # cannot be written as a literal in workflow.py by repr()


def shapes(paths):
    """All container shapes (by class) holding exactly the given list of path strings."""
    k = len(paths)
    if k == 0:
        return [
            ("list0", lambda p: []),
            ("dict0", lambda p: {}),
            ("tuple0", lambda p: ()),
            ("dict_emptylist", lambda p: {"k": []}),
            ("list_emptylist", lambda p: [[]]),
            ("dict_mixed_empty", lambda p: {"a": [], "b": {}}),
        ]
    if k == 1:
        return [
            ("str", lambda p: p[0]),
            ("list", lambda p: [p[0]]),
            ("tuple", lambda p: (p[0],)),
            ("nested", lambda p: [[p[0]]]),
            ("dict_str", lambda p: {"a": p[0]}),
            ("dict_list", lambda p: {"a": [p[0]]}),
            ("dict_list_plus_empty", lambda p: {"a": [p[0]], "b": []}),
            ("list_plus_empty", lambda p: [p[0], []]),
            ("dict_in_list", lambda p: [{"a": p[0]}]),
            ("dictvalues", lambda p: {"a": p[0]}.values()),
            ("customiter", lambda p: Reiterable([p[0]])),
            ("userdict", lambda p: __import__("collections").UserDict({"zz": p[0]})),
            ("mappingproxy", lambda p: __import__("types").MappingProxyType({"zz": [p[0]]})),
        ]
    if k == 2:
        return [
            ("list", lambda p: [p[0], p[1]]),
            ("tuple", lambda p: (p[0], p[1])),
            ("nested", lambda p: [[p[0]], [p[1]]]),
            ("half_nested", lambda p: [p[0], [p[1]]]),
            ("dict_strs", lambda p: {"a": p[0], "b": p[1]}),
            ("dict_one_list", lambda p: {"a": [p[0], p[1]]}),
            ("dict_lists", lambda p: {"a": [p[0]], "b": [p[1]]}),
            ("dict_mixed", lambda p: {"a": p[0], "b": [p[1]], "c": []}),
            ("mixed", lambda p: [{"a": p[0]}, p[1]]),
            ("reversed", lambda p: [p[1], p[0]]),
            ("dictvalues", lambda p: {"a": p[0], "b": p[1]}.values()),
            ("dictvalues_nested", lambda p: [{"a": [p[0]]}.values(), Reiterable([p[1]])]),
        ]
    return [
        ("list", lambda p: list(p)),
        ("dict_lists", lambda p: {"a": list(p[:1]), "b": list(p[1:])}),
        ("nested", lambda p: [[x] for x in p]),
        ("reversed", lambda p: list(reversed(p))),
    ]


HASH_STATES = (None, "none", "same", "diff")
B_STATES = ("unknown", "completed")
SPEC = "echo hi\n"


def single_items(K):
    items = []
    for ki in range(K + 1):
        for ko in range(K + 1):
            ins = [f"i{j}" for j in range(ki)]
            outs = [f"o{j}" for j in range(ko)]
            for si, _ in shapes(ins):
                for so, _ in shapes(outs):
                    items.append((ki, ko, si, so))
    return items


def eval_single(ki, ko, si, so, in_m, out_m, hs, bs, scratch):
    """Run the real code for one case; returns (status_word, submitted_bool)."""
    from gwf.core import Graph
    from gwf.scheduling import get_status_map, submit_workflow

    ins = [f"i{j}" for j in range(ki)]
    outs = [f"o{j}" for j in range(ko)]
    cin = dict(shapes(ins))[si](ins)
    cout = dict(shapes(outs))[so](outs)
    files = {f"{WD}/{p}": m for p, m in zip(ins, in_m)}
    files.update({f"{WD}/{p}": m for p, m in zip(outs, out_m) if m is not None})
    universe = [f"{WD}/{p}" for p in ins + outs]
    res = []
    for mode in ("status", "run"):
        t = gwfh.mk_target("T", cin, cout, spec=SPEC)
        fs = gwfh.mk_fs(files, universe)
        g = Graph.from_targets({"T": t}, fs)
        be, ops, _ = gwfh.mk_backend(scratch, {"T": bs})
        sh = gwfh.mk_hashes(None if hs is None else {"T": hs}, {"T": SPEC})
        if mode == "status":
            sm = get_status_map(g, fs, sh, be)
            res.append(gwfh.status_word(sm[t]))
        else:
            submit_workflow(g.endpoints(), g, fs, sh, be)
            res.append(any(j[0] == "submit" and j[1] == "T" for j in ops.journal))
    return tuple(res)


def ref_single(ki, ko, in_m, out_m, hs):
    ins = {f"{WD}/i{j}" for j in range(ki)}
    outs = {f"{WD}/o{j}" for j in range(ko)}
    files = {f"{WD}/i{j}": m for j, m in enumerate(in_m)}
    files.update({f"{WD}/o{j}": m for j, m in enumerate(out_m) if m is not None})
    ok = P.up_to_date(dict(name="T", inputs=ins, outputs=outs), files, hs)
    return ("completed", False) if ok else ("shouldrun", True)


def single_batch(acc, batch, ranks=3, epoch=None):
    """epoch=(base, step): modification times base+step*rank instead of the default 2017 quarter-seconds — around the epoch, a file
    dated exactly 0 (or before 1970) is an ordinary existing file."""
    from mc.runner import worker_scratch

    scratch = worker_scratch("c01")
    R = list(range(1, ranks + 1))
    saved = (gwfh.MTIME_BASE, gwfh.MTIME_STEP)
    if epoch is not None:
        gwfh.MTIME_BASE, gwfh.MTIME_STEP = epoch
    try:
        _single_batch(acc, batch, R, scratch, epoch)
    finally:
        gwfh.MTIME_BASE, gwfh.MTIME_STEP = saved


def _single_batch(acc, batch, R, scratch, epoch):
    for ki, ko, si, so in batch:
        for in_m in itertools.product(R, repeat=ki):
            for out_m in itertools.product([None] + R, repeat=ko):
                for hs in HASH_STATES:
                    exp = ref_single(ki, ko, in_m, out_m, hs)
                    for bs in B_STATES:
                        case = dict(kind="single", ki=ki, ko=ko, si=si, so=so, in_m=in_m, out_m=out_m, hs=hs, bs=bs, **(dict(epoch=list(epoch)) if epoch else {}))
                        try:
                            obs = eval_single(ki, ko, si, so, in_m, out_m, hs, bs, scratch)
                        except Exception as e:  # a crash is an observation, not a harness error
                            obs = ("exception", type(e).__name__)
                        acc.case(
                            key=(ki, ko, in_m, out_m, hs, epoch),  # distinct semantic cases (shape/backend are metamorphic copies)
                            outcome=str(obs),
                            sample=case,
                        )
                        if obs != exp:
                            acc.violation(
                                sig=dict(kind="single", ko=ko, so=so if ko == 0 else "*", exp=exp[0], obs=obs[0], **(dict(epoch=True) if epoch else {})),
                                case=case,
                                expected=exp,
                                observed=obs,
                                msg=f"target with inputs {si}{list(in_m)} outputs {so}{list(out_m)} hash={hs} backend={bs}: expected {exp}, got {obs}",
                            )


# ---------------------------------------------------------------------------------------------- (b)


def wf_items(n, m):
    """Every assignment of each of m files to {neither,input,output} for each of n targets, kept if valid:
    unique producers, acyclic (ref.graph). Returned as tuples of per-target role strings."""
    from mc.ref import graph as G

    roles = list(itertools.product("-io", repeat=m))
    items = []
    for combo in itertools.product(roles, repeat=n):
        tl = []
        for ti, r in enumerate(combo):
            ins = {f"{WD}/f{j}" for j in range(m) if r[j] == "i"}
            outs = {f"{WD}/f{j}" for j in range(m) if r[j] == "o"}
            tl.append((f"T{ti}", ins, outs))
        rel = G.relations(tl)
        if rel["multi"] or G.has_cycle(rel["dependencies"]):
            continue
        items.append(tuple("".join(r) for r in combo))
    return items


def eval_wf(combo, fstate, hs, scratch):
    from gwf.core import Graph
    from gwf.scheduling import get_status_map, submit_workflow

    m = len(combo[0])
    files = {f"{WD}/f{j}": fstate[j] for j in range(m) if fstate[j] is not None}
    universe = [f"{WD}/f{j}" for j in range(m)]
    out = []
    for mode in ("status", "run"):
        targets = {}
        for ti, r in enumerate(combo):
            ins = [f"f{j}" for j in range(m) if r[j] == "i"]
            outs = [f"f{j}" for j in range(m) if r[j] == "o"]
            targets[f"T{ti}"] = gwfh.mk_target(f"T{ti}", ins, outs, spec=SPEC)
        fs = gwfh.mk_fs(files, universe)
        g = Graph.from_targets(targets, fs)
        be, ops, _ = gwfh.mk_backend(scratch, {})
        sh = gwfh.mk_hashes(hs, {n: SPEC for n in targets})
        if mode == "status":
            sm = get_status_map(g, fs, sh, be)
            out.append({t.name: gwfh.status_word(s) for t, s in sm.items()})
        else:
            submit_workflow(g.endpoints(), g, fs, sh, be)
            out.append(sorted(j[1] for j in ops.journal if j[0] == "submit"))
    return out


def ref_wf(combo, fstate, hs):
    m = len(combo[0])
    files = {f"{WD}/f{j}": fstate[j] for j in range(m) if fstate[j] is not None}
    targets = []
    for ti, r in enumerate(combo):
        targets.append(
            dict(
                name=f"T{ti}",
                inputs={f"{WD}/f{j}" for j in range(m) if r[j] == "i"},
                outputs={f"{WD}/f{j}" for j in range(m) if r[j] == "o"},
            )
        )
    pl = P.plan(targets, files, {}, hs)
    return [pl["status"], sorted(pl["submitted"])]


def wf_batch(acc, batch, ranks=3, hash_modes=(None,)):
    from mc.ref import graph as G
    from mc.runner import worker_scratch

    scratch = worker_scratch("c01")
    for combo in batch:
        m = len(combo[0])
        n = len(combo)
        produced = {j for r in combo for j in range(m) if r[j] == "o"}
        consumed = {j for r in combo for j in range(m) if r[j] == "i"}
        sources = consumed - produced
        dom = []
        for j in range(m):
            if j in sources:
                dom.append(list(range(1, ranks + 1)))  # unresolved inputs must exist for a valid workflow
            elif j in produced or j in consumed:
                dom.append([None] + list(range(1, ranks + 1)))
            else:
                dom.append([None])  # unused file: irrelevant
        for fstate in itertools.product(*dom):
            for hm in hash_modes:
                if hm is None:
                    hss = [None]
                else:  # every per-target combination of record states
                    hss = [dict(zip([f"T{i}" for i in range(n)], c)) for c in itertools.product(("none", "same", "diff"), repeat=n)]
                for hs in hss:
                    case = dict(kind="wf", combo=combo, fstate=fstate, hs=hs)
                    exp = ref_wf(combo, fstate, hs)
                    try:
                        obs = eval_wf(combo, fstate, hs, scratch)
                    except Exception as e:
                        obs = ["exception", type(e).__name__ + ": " + str(e)[:100]]
                    acc.case(key=(combo, fstate, str(hs)), outcome=str(obs[0]), sample=case)
                    if obs != exp:
                        acc.violation(
                            sig=dict(kind="wf", n=n),
                            case=case,
                            expected=exp,
                            observed=obs,
                            msg=f"workflow {combo} files {fstate} hashes {hs}: expected {exp} got {obs}",
                        )


# ---------------------------------------------------------------------------------------------- (c)


def cli_items(K_in=1, K_out=2):
    items = []
    for ki in range(K_in + 1):
        for ko in range(K_out + 1):
            ins = [f"i{j}" for j in range(ki)]
            outs = [f"o{j}" for j in range(ko)]
            for si, _ in shapes(ins):
                for so, _ in shapes(outs):
                    if si in NOCLI or so in NOCLI:
                        continue
                    items.append((ki, ko, si, so))
    return items


def eval_cli(ki, ko, si, so, in_m, out_m, hs, rank_offset=0):
    from mc import world as W

    in_m = tuple(m + rank_offset for m in in_m)
    out_m = tuple(None if m is None else m + rank_offset for m in out_m)

    ins = [f"i{j}" for j in range(ki)]
    outs = [f"o{j}" for j in range(ko)]
    cin = dict(shapes(ins))[si](ins)
    cout = dict(shapes(outs))[so](outs)
    wf = W.Workflow([W.T("T", cin, cout, spec=SPEC)])
    files = {p: m for p, m in zip(ins, in_m)}
    files.update({p: m for p, m in zip(outs, out_m) if m is not None})
    conf = {"backend": "slurm"}
    hashes = None
    if hs is not None:
        conf["use_spec_hashes"] = True
        if hs == "same":
            hashes = {"T": W.sha1(SPEC)}
        elif hs == "diff":
            hashes = {"T": W.sha1("old")}
    w = W.World(wf=wf, files={p: (m, "c") for p, m in files.items()}, conf=conf, hashes=hashes)
    with W.Session(w) as s:
        r1 = s.gwf(["status"])
        st = W.parse_status(r1.stdout).get("T") if r1.exit_code == 0 else f"exit{r1.exit_code}:{r1.err_summary()}"
        # the decision must not depend on having asked before: a dry run in between changes nothing
        s.gwf(["run", "-d"])
        r1b = s.gwf(["status"])
        st_b = W.parse_status(r1b.stdout).get("T") if r1b.exit_code == 0 else f"exit{r1b.exit_code}"
        if st_b != st:
            st = f"{st} then {st_b} after a dry run"
        # ... and neither does a run whose submission the scheduler rejects (the script was not "submitted")
        s.sim.s["faults"] = {"sbatch#0": "rc1"}
        s.gwf(["run"])
        s.sim.s["faults"] = {}
        r1c = s.gwf(["status"])
        st_c = W.parse_status(r1c.stdout).get("T") if r1c.exit_code == 0 else f"exit{r1c.exit_code}"
        if st_c != st_b:
            st = f"{st} then {st_c} after a rejected submission"
        r2 = s.gwf(["run"])
        sub = [j["name"] for j in s.sim.journal_submits()] if r2.exit_code == 0 else f"exit{r2.exit_code}:{r2.err_summary()}"
    return (st, sub == ["T"] if isinstance(sub, list) else sub)


def cli2_batch(acc, batch):
    """Two targets T -> U through the real CLI with spec hashing on: every combination of (never recorded, recorded same, recorded for
    another script) for both, files fresh. `gwf run`, then every job runs to success in order, then `gwf status` / `gwf run`:
    "unchanged since last submitted" must hold for exactly what that run submitted — nothing is submitted a second time."""
    from mc import cliworld as CW
    from mc import simsched
    from mc import world as W

    for hs_t, hs_u, *rest in batch:
        edit_in_flight = bool(rest and rest[0])
        wf = W.Workflow([W.T("T", ["src"], ["t"], spec="echo T\n"), W.T("U", ["t"], ["u"], spec="echo U\n"), W.T("V", ["src"], ["v"], spec="echo V\n")])
        hashes = {"V": W.sha1("echo V\n")}
        for n, hs in (("T", hs_t), ("U", hs_u)):
            if hs == "same":
                hashes[n] = W.sha1(f"echo {n}\n")
            elif hs == "diff":
                hashes[n] = W.sha1("old")
        w = W.World(wf, files={"src": (1, "s"), "t": (2, "t"), "u": (3, "u"), "v": (2, "v")}, conf={"backend": "slurm", "use_spec_hashes": True}, hashes=hashes)
        stale_t = hs_t != "same"
        stale_u = stale_t or hs_u != "same"
        exp_first = {"T": "shouldrun" if stale_t else "completed", "U": "shouldrun" if stale_u else "completed", "V": "completed"}
        case = dict(kind="cli2", hs_t=hs_t, hs_u=hs_u, edit_in_flight=edit_in_flight)
        problems = []
        with W.Session(w) as s:
            r0 = s.gwf(["status"])
            rows0 = W.parse_status(r0.stdout)
            r1 = s.gwf(["run"])
            subs = sorted(e["name"] for e in s.sim.journal_submits())
            w1 = s.snapshot()
        if rows0 != exp_first:
            problems.append(f"status before the run {rows0}, expected {exp_first}")
        exp_subs = sorted(n for n in ("T", "U") if exp_first[n] == "shouldrun")
        if r1.exit_code != 0 or subs != exp_subs:
            problems.append(f"run submitted {subs} (exit {r1.exit_code}), expected {exp_subs}")
        if edit_in_flight and "T" in subs:
            # while the jobs are queued the script of T is edited and gwf is run once more: nothing new is submitted (T is in flight), and
            # what the scheduler runs is still the old script — so when it has finished, T has changed since it was last submitted
            w1.wf = w1.wf.with_spec("T", "echo T edited while queued\n")
            with W.Session(w1) as s:
                r1b = s.gwf(["run"])
                again = sorted(e["name"] for e in s.sim.journal_submits())
                w1 = s.snapshot()
            acc.extra["cli_invocations"] += 1
            if r1b.exit_code != 0 or again:
                problems.append(f"a run while the jobs are queued submitted {again} (exit {r1b.exit_code})")
        # every job succeeds, in dependency order, each creating its outputs
        sim = simsched.Sim(w1.sim)
        progress = True
        while progress:
            progress = False
            for a, jid in sim.enabled():
                if a in ("start", "finish_ok"):
                    sim.step(a, jid)
                    if a == "finish_ok":
                        clock = w1.clock() + 1
                        for o in w1.wf.by_name(w1.sim["jobs"][jid]["name"]).flat("outputs"):
                            w1.files[o] = (clock, "made")
                    progress = True
                    break
        with W.Session(w1) as s:
            r2 = s.gwf(["status"])
            rows2 = W.parse_status(r2.stdout)
            r3 = s.gwf(["run"])
            subs3 = sorted(e["name"] for e in s.sim.journal_submits())
        acc.extra["cli_invocations"] += 4
        edited = edit_in_flight and "T" in subs
        exp2 = {"T": "shouldrun", "U": "shouldrun", "V": "completed"} if edited else {"T": "completed", "U": "completed", "V": "completed"}
        if rows2 != exp2:
            problems.append(f"after the jobs succeeded status shows {rows2}, expected {exp2}")
        if subs3 != (["T", "U"] if edited else []):
            problems.append(f"the next run submits {subs3}, expected {['T', 'U'] if edited else []}")
        acc.case(key=("cli2", hs_t, hs_u, edit_in_flight), outcome=f"cli2 first={len(exp_subs)} ok={not problems}", sample=case)
        if problems:
            acc.violation(sig=dict(kind="cli2", what=problems[0].split(" ")[0] + " " + problems[0].split(" ")[1]), case=case, observed=problems,
                          msg=f"T -> U with recorded hashes T:{hs_t} U:{hs_u}: {problems}")


FUTURE = 10**10  # rank offset: real files dated about 80 years after the harness' base date, i.e. well ahead of the machine's clock


def cli_batch(acc, batch, ranks=3, future=False):
    R = list(range(1, ranks + 1))
    for ki, ko, si, so in batch:
        for in_m in itertools.product(R, repeat=ki):
            for out_m in itertools.product([None] + R, repeat=ko):
                for hs in (HASH_STATES if not future else (None, "same")):
                    exp = ref_single(ki, ko, in_m, out_m, hs)
                    case = dict(kind="cli", ki=ki, ko=ko, si=si, so=so, in_m=in_m, out_m=out_m, hs=hs, **(dict(future=True) if future else {}))
                    obs = eval_cli(ki, ko, si, so, in_m, out_m, hs, rank_offset=FUTURE if future else 0)
                    acc.case(key=("cli", ki, ko, in_m, out_m, hs, future), outcome="cli" + str(obs), sample=case)
                    acc.extra["cli_invocations"] += 6
                    if obs != exp:
                        acc.violation(
                            sig=dict(kind="cli", ko=ko, so=so if ko == 0 else "*", exp=exp[0], obs=str(obs[0])[:40], **(dict(future=True) if future else {})),
                            case=case,
                            expected=exp,
                            observed=obs,
                            msg=f"`gwf status`/`gwf run` on real files: inputs {si}{list(in_m)} outputs {so}{list(out_m)} hash={hs}: expected {exp}, got {obs}",
                        )


# ----------------------------------------------------------------------------------------------


def run(ctx):
    import mc.checks.c01 as me

    quick = ctx.tier == "quick"
    K = 2 if quick else 3
    ctx.rule = (
        "single: (k_in,k_out,mtime assignment incl. ties/missing,hash state) distinct semantic cases, each repeated over all "
        "container shapes x backend unknown/completed; wf: every valid (n targets, m files) role assignment x every file "
        "state; cli: real files through `gwf status` and `gwf run`; non-trivial = all (every case has a defined expected answer)"
    )
    ctx.pmap(me, "single_batch", single_items(K), ranks=3)
    plain = [it for it in single_items(K) if it[2] in ("list", "list0") and it[3] in ("list", "list0")]
    # ranks 1..3 -> 0, 1, 2 and -2, -1, 0 seconds since the epoch; and dates far in the future (a file server whose clock runs ahead)
    for ep in ((-1.0, 1.0), (-3.0, 1.0), (4_000_000_000.0, 1.0)):
        ctx.pmap(me, "single_batch", plain, ranks=3, epoch=ep)
    nm = [(2, 3)] if quick else [(2, 3), (3, 3), (2, 4)]
    for n, m in nm:
        ctx.pmap(me, "wf_batch", wf_items(n, m), ranks=3 if (n, m) != (2, 4) else 2, hash_modes=(None, "on") if (n, m) == (2, 3) else (None,))
    ctx.pmap(me, "cli_batch", [it for it in cli_items(1, 2) if it[0] == 1 and it[2] in ("list", "str") and it[3] in ("list", "str", "list0")], ranks=3, future=True)
    ctx.pmap(me, "cli2_batch", [(a, b, e) for a in ("none", "same", "diff") for b in ("none", "same", "diff") for e in (False, True)], chunk=1)
    ctx.pmap(me, "cli_batch", cli_items(1, 2 if quick else 2), ranks=2 if quick else 3)
    ctx.bound = dict(single_K=K, ranks=3, workflows=nm, cli="k_in<=1,k_out<=2,ranks=%d" % (2 if quick else 3))
    ctx.assumptions = [
        "function level: files are presented through CachedFilesystem's cache (mtimes as floats); the cli sub-bound uses real files stamped with os.utime",
        "inputs always exist (guaranteed for valid workflows whose dependencies are complete)",
    ]


def replay(case):
    from mc.runner import Acc

    acc = Acc()
    c = dict(case)
    kind = c.pop("kind")
    if kind == "single":
        _replay_single(acc, c)
    elif kind == "wf":
        _replay_wf(acc, c)
    elif kind == "cli2":
        cli2_batch(acc, [(c["hs_t"], c["hs_u"], c.get("edit_in_flight", False))])
    elif kind == "cli":
        exp = ref_single(c["ki"], c["ko"], tuple(c["in_m"]), tuple(c["out_m"]), c["hs"])
        obs = eval_cli(c["ki"], c["ko"], c["si"], c["so"], tuple(c["in_m"]), tuple(c["out_m"]), c["hs"], rank_offset=FUTURE if c.get("future") else 0)
        if obs != exp:
            acc.violation(dict(kind="cli"), case, exp, obs)
    return acc.violations


def _replay_single(acc, c):
    from mc.runner import worker_scratch

    ep = c.pop("epoch", None)
    if ep:
        a2 = type(acc)()
        single_batch(a2, [(c["ki"], c["ko"], c["si"], c["so"])], ranks=3, epoch=tuple(ep))
        acc.violations += [v for v in a2.violations if all(list(v["case"][k]) == list(c[k]) if isinstance(c[k], (list, tuple)) else v["case"][k] == c[k] for k in ("in_m", "out_m", "hs", "bs"))]
        return

    exp = ref_single(c["ki"], c["ko"], tuple(c["in_m"]), tuple(c["out_m"]), c["hs"])
    try:
        obs = eval_single(c["ki"], c["ko"], c["si"], c["so"], tuple(c["in_m"]), tuple(c["out_m"]), c["hs"], c["bs"], worker_scratch("c01"))
    except Exception as e:
        obs = ("exception", type(e).__name__)
    if obs != exp:
        acc.violation(dict(kind="single"), c, exp, obs)


def _replay_wf(acc, c):
    from mc.runner import worker_scratch

    combo, fstate = tuple(c["combo"]), tuple(c["fstate"])
    exp = ref_wf(combo, fstate, c["hs"])
    try:
        obs = eval_wf(combo, fstate, c["hs"], worker_scratch("c01"))
    except Exception as e:
        obs = ["exception", type(e).__name__ + ": " + str(e)[:100]]
    if obs != exp:
        acc.violation(dict(kind="wf"), c, exp, obs)
