"""C06 — convergence: a successful run leaves everything complete, re-run is a no-op; minimal re-run after one perturbation.

E2 over the scheduler's own schedules. Job-free project states are enumerated directly (every per-target file freshness x every
per-target latest-job outcome none/DONE/FAILED/CANCELLED/TIMEOUT, as the tracked file + scheduler records would hold them); for each
state and selection R: real `gwf run R`; then **every** legal complete execution order of the submitted jobs (BFS over the
simulator: any job whose dependency condition holds may start, any running job may finish successfully, outputs stamped at
finish); in every terminal state `gwf status` must show every cone target with outputs as completed and `gwf run R` must submit
none of them. Then every single perturbation (each source modified, each output deleted): the next run submits exactly the
reference set; execute again, perturb again (depth 2 in thorough).
"""
import itertools
import json

from mc import cliworld as CW
from mc import e2
from mc import simsched
from mc import world as W
from mc.checks import c08
from mc.ref import graph as G

ID = "C06"
LEVEL = "model_checking"

FRESH = ("missing", "older", "newer")
JOBOUT = (None, "DONE", "FAILED", "CANCELLED")


def make_state(wfname, backend, fresh, jobs, hashing=False, accounting=True):
    """Job-free world: per-target freshness of its outputs and outcome of its latest (finished) job."""
    w = CW.init_world(wfname, backend, hashing=hashing, accounting=accounting)
    wf = w.wf
    tl = [(t.name, set(t.flat("inputs")), set(t.flat("outputs"))) for t in wf.targets]
    rel = G.relations(tl)
    files = dict(w.files)
    val = {p: 10.0 for p in files}
    for n in G.topo_order(rel["dependencies"]):
        t = wf.by_name(n)
        f = fresh[wf.names().index(n)]
        existing = [val[p] for p in t.flat("inputs") if p in val]
        if f == "missing":
            continue
        existing = existing or [10.0]
        v = (max(existing) + 1.0) if f == "newer" else (min(existing) - 1.0)
        for o in t.flat("outputs"):
            val[o] = v
    ranks = {v: i + 1 for i, v in enumerate(sorted(set(val.values())))}
    files = {p: (ranks[v], f"init:{p}") for p, v in val.items()}
    tracked = {}
    for k, (n, out) in enumerate(zip(wf.names(), jobs)):
        if out is None:
            continue
        jid = str(700 + k)
        w.sim["jobs"][jid] = c08.mkjob(jid, n, state=out, in_queue=(k % 2 == 0))
        w.sim["order"].append(jid)
        tracked[n] = jid
    w.files = files
    w.tracked = {backend: tracked} if tracked else {}
    if hashing:
        w.hashes = {t.name: W.sha1(t.spec) for t in wf.targets if fresh[wf.names().index(t.name)] != "missing"}
    return w


def drain_all(world, cap=400, stamp=None):
    """All terminal worlds reachable by legal scheduler steps (start / finish_ok) — BFS with dedup.
    stamp='tie': every job gives its outputs the modification time of its newest input (`cp -p`, `rsync -t`, `touch -r`) instead of 'now'."""
    if world.backend() == "local":
        return drain_all_local(world, cap)
    seen, frontier, terminals = set(), [world], []
    while frontier:
        nxt = []
        for w in frontier:
            sim = simsched.Sim(w.sim)
            acts = [(a, j) for a, j in sim.enabled() if a in ("start", "finish_ok")]
            stuck = [j["id"] for j in sim.jobs() if j["state"] in simsched.ACTIVE]
            if not acts:
                terminals.append((w, stuck))
                continue
            for a, jid in acts:
                w2 = w.copy()
                s2 = simsched.Sim(w2.sim)
                s2.step(a, jid)
                if a == "finish_ok":
                    j = w2.sim["jobs"][jid]
                    clock = w2.clock() + 1
                    t = w2.wf.by_name(j["name"])
                    if stamp == "tie":
                        have = [w2.files[p][0] for p in t.flat("inputs") if p in w2.files]
                        clock = max(have) if have else clock
                    for o in t.flat("outputs"):
                        w2.files[o] = (clock, f"{j['name']}#{jid}")
                w2.normalize()
                k = e2.world_key(w2)
                if k not in seen:
                    seen.add(k)
                    nxt.append(w2)
        frontier = nxt
        if len(seen) > cap:
            raise RuntimeError("drain cap")
    return terminals, len(seen)


def drain_all_local(world, cap=400):
    """Local pool: every order in which the live processes may exit successfully (BFS with dedup)."""
    seen, frontier, terminals = set(), [world], []
    while frontier:
        nxt = []
        for w in frontier:
            acts = [a for a in CW.enabled_env(w, kinds=("finish_ok",)) if a[1] == "exit"]
            if not acts:
                stuck = [t["name"] for t in w.pool["summary"]["tasks"] if t["state"] in ("SUBMITTED", "RUNNING")]
                terminals.append((w, stuck))
                continue
            for a in acts:
                w2, _ = CW.apply_action(w, a)
                w2.normalize()
                k = e2.world_key(w2)
                if k not in seen:
                    seen.add(k)
                    nxt.append(w2)
        frontier = nxt
        if len(seen) > cap:
            raise RuntimeError("drain cap")
    return terminals, len(seen)


def gwf_run(world, sel):
    with W.Session(world) as s:
        r = s.gwf(["run"] + (sel or []))
        w2 = s.snapshot()
        if world.backend() == "local":
            n = len(world.pool["summary"].get("history", []))
            subs = [h[2] for h in w2.pool["summary"].get("history", [])[n:]]
        else:
            subs = [e["name"] for e in s.sim.journal_submits()]
    return r, subs, w2


def gwf_status(world):
    with W.Session(world) as s:
        r = s.gwf(["status"])
    return r, (W.parse_status(r.stdout) if r.exit_code == 0 else None)


def converge_and_check(acc, world, sel, case, meta, depth):
    """run R, every execution order, fixpoint checks, then perturbations (recursively to `depth`)."""
    cone, roots, rel = CW.cone_names(world, sel)
    with_outputs = {t.name for t in world.wf.targets if t.flat("outputs")}
    rows_before = None
    if sel and world.backend() != "local":
        _rb, rows_before = gwf_status(world)  # a run restricted to one cone leaves the state of every other target as it was
        acc.extra["invocations"] += 1
    r, subs, w1 = gwf_run(world, sel)
    acc.extra["invocations"] += 1

    def viol(what, observed, **sig):
        acc.violation(sig=dict(what=what, backend=meta["backend"], **sig), case=case, observed=observed,
                      msg=f"[{meta['wf']}/{meta['backend']}] {json.dumps(case['state'])} sel={sel} history={case.get('history')}: {what}: {json.dumps(observed, default=str)[:400]}")

    if r.exit_code != 0 or r.crashed():
        viol("run failed", r.as_dict())
        return
    terminals, nstates = drain_all(w1, stamp=meta.get("stamp"))
    acc.extra["sched_states"] += nstates
    acc.extra["transitions"] += nstates
    for wt, stuck in terminals:
        acc.sets["states"].add(e2.world_key(wt))
        if stuck:
            viol("jobs can never start although every job succeeds", dict(stuck=stuck, jobs={j: wt.sim["jobs"][j]["argv"] for j in stuck}))
            continue
        rs, rows = gwf_status(wt)
        acc.extra["invocations"] += 1
        if rows is None:
            viol("status failed after drain", rs.as_dict())
            continue
        if rows_before:
            # (a target downstream of the cone may legitimately change: its dependency was just rebuilt)
            def touches_cone(n, seen=None):
                seen = seen if seen is not None else set()
                for d in rel["dependencies"].get(n, ()):
                    if d in cone or (d not in seen and not seen.add(d) and touches_cone(d, seen)):
                        return True
                return False

            moved = {n: (rows_before.get(n), rows.get(n)) for n in rows if n not in cone and not touches_cone(n) and rows_before.get(n) != rows.get(n)}
            if moved:
                viol("a run restricted to a cone changed the status of targets outside it", dict(selection=sel, outside=moved), outside=True)
        notdone = sorted(n for n in cone & with_outputs if rows.get(n) != "completed")
        if notdone:
            viol("not completed after a successful run", dict(rows=rows, not_completed=notdone, files=wt.canon_files()), n=len(notdone))
        r2, subs2, _ = gwf_run(wt, sel)
        acc.extra["invocations"] += 1
        again = sorted(set(subs2) & with_outputs)
        if r2.exit_code != 0 or again:
            viol("re-run is not a no-op", dict(resubmitted=again, exit=r2.exit_code))
        acc.case(key=None, outcome=f"submitted={len(subs)} terminals={len(terminals)} resub={len(again)}", nontrivial=False)
    if depth <= 0 or not terminals:
        return
    # perturbations from the first and the last terminal state (they differ in finishing order)
    for wt, stuck in (terminals[:1] + terminals[-1:] if len(terminals) > 1 else terminals[:1]):
        if stuck:
            continue
        srcs = CW.sources(wt.wf)
        outs = [o for t in wt.wf.targets for o in t.flat("outputs") if o in wt.files]
        for kind, path in [("modify", s) for s in srcs] + [("delete", o) for o in outs]:
            wp, _ = CW.apply_action(wt, (kind, path))
            if kind == "modify":
                seeds = {t.name for t in wp.wf.targets if path in t.flat("inputs")}
            else:
                seeds = {t.name for t in wp.wf.targets if path in t.flat("outputs")}
            expected = set()
            stack = list(seeds)
            while stack:
                n = stack.pop()
                if n in expected:
                    continue
                expected.add(n)
                stack.extend(rel["dependents"][n])
            expected &= cone
            rp, subsp, wp1 = gwf_run(wp, sel)
            acc.extra["invocations"] += 1
            no_out = {t.name for t in wp.wf.targets if not t.flat("outputs")}
            got = set(subsp)
            if rp.exit_code != 0 or (got - no_out) != (expected - no_out) or not (got & no_out) <= cone or len(subsp) != len(got):
                viol("re-run after one perturbation is not minimal/complete", dict(perturbation=[kind, path], expected=sorted(expected - no_out), submitted=sorted(subsp)), kind=kind)
            acc.case(key=None, outcome=f"perturb {kind} -> {len(got)}", nontrivial=False)
            if depth > 1:
                c2 = dict(case, history=(case.get("history") or []) + [[kind, path]])
                converge_and_check(acc, wp, sel, c2, meta, depth - 1)


LOCAL_HISTORIES = [
    [],
    [("gwf", ["run"]), ("penv", "exit", "A", 1)],
    [("gwf", ["run"]), ("penv", "exit", "A", 0), ("penv", "exit", "B", 1)],
    [("gwf", ["run", "B"]), ("penv", "exit", "A", 0), ("penv", "exit", "B", 0), ("modify", "src")],
    [("gwf", ["run"]), ("penv", "exit", "A", 0), ("penv", "exit", "B", 0), ("delete", "a")],
]


def local_batch(acc, batch, depth=1):
    for wfname, hi, sel in batch:
        w = CW.init_world(wfname, "local")
        hist = LOCAL_HISTORIES[hi]
        ok = True
        for a in hist:
            if a[0] == "penv" and a not in CW.enabled_env(w):
                # let the remaining live processes of this history finish first
                ok = False
                break
            w, _ = CW.apply_action(w, a)
            w.normalize()
        if not ok:
            continue
        # make the state job-free: every live process exits successfully
        terms, _ = drain_all_local(w)
        w = terms[0][0]
        meta = dict(wf=wfname, backend="local", accounting=True, hashing=False)
        case = dict(kind="local", meta=meta, state=dict(history=[list(a) for a in hist]), sel=sel, depth=depth, hi=hi)
        acc.case(key=json.dumps(case, sort_keys=True), outcome=None, nontrivial=True, sample=case)
        converge_and_check(acc, w, sel, case, meta, depth)


def states_batch(acc, batch, meta=None, sels=(None,), depth=1):
    for fresh, jobs in batch:
        w = make_state(meta["wf"], meta["backend"], fresh, jobs, hashing=meta["hashing"], accounting=meta["accounting"])
        for sel in sels:
            case = dict(meta=meta, state=dict(fresh=fresh, jobs=jobs), sel=sel, depth=depth)
            acc.case(key=json.dumps(case, sort_keys=True), outcome=None, nontrivial=True, sample=case)
            converge_and_check(acc, w, sel, case, meta, depth)


def items(n, quick):
    its = []
    for fresh in itertools.product(FRESH, repeat=n):
        for jobs in itertools.product(JOBOUT, repeat=n):
            if quick and sum(j is not None for j in jobs) > 2:
                continue
            its.append((fresh, jobs))
    return its


QUICK = [
    dict(wf="fork", backend="slurm", accounting=True, hashing=False, sels=(None, ["B"]), depth=1),
    dict(wf="chain", backend="sge", accounting=True, hashing=False, sels=(None,), depth=1),
    dict(wf="fork", backend="lsf", accounting=True, hashing=True, sels=(None, ["B"]), depth=1),
    dict(wf="shortcut", backend="sge", accounting=True, hashing=False, sels=(None, ["X"]), depth=1, few=True),
    # an unrelated component next to the selected cone, hashing on: running one cone changes nothing about the other
    dict(wf="twocomp", backend="slurm", accounting=True, hashing=True, sels=(["B"], ["X"]), depth=1, few=True),
    # jobs that give their outputs the time stamp of their newest input (ties everywhere)
    dict(wf="chain", backend="slurm", accounting=True, hashing=False, sels=(None,), depth=1, few=True, stamp="tie"),
]
THOROUGH = [dict(wf=wf, backend=be, accounting=acct, hashing=h, sels=(None, ["B"], ["C"]), depth=1)
            for wf in ("fork", "chain") for be, acct in (("slurm", True), ("slurm", False), ("sge", True), ("lsf", True)) for h in (False, True)] + \
           [dict(wf="fork", backend=be, accounting=True, hashing=False, sels=(None,), depth=2, quick_items=True) for be in ("slurm", "lsf")] + \
           [dict(wf=wf, backend="slurm", accounting=True, hashing=h, sels=(None, ["B"]), depth=1, stamp="tie") for wf in ("fork", "chain") for h in (False, True)] + \
           [dict(wf="twocomp", backend=be, accounting=True, hashing=h, sels=(["B"], ["X"]), depth=1) for be in ("slurm", "lsf") for h in (False, True)] + \
           [dict(wf="diamond", backend=be, accounting=True, hashing=False, sels=(None, ["D"]), depth=1, quick_items=True) for be in ("slurm", "sge", "lsf")]


def run(ctx):
    import mc.checks.c06 as me

    done = []
    for cfg in (QUICK if ctx.tier == "quick" else THOROUGH):
        meta = dict(wf=cfg["wf"], backend=cfg["backend"], accounting=cfg["accounting"], hashing=cfg["hashing"], **(dict(stamp=cfg["stamp"]) if cfg.get("stamp") else {}))
        n = len(CW.WORKFLOWS[cfg["wf"]]().targets)
        its = items(n, ctx.tier == "quick" or cfg.get("quick_items"))
        if cfg.get("few"):
            its = [it for it in its if sum(j is not None for j in it[1]) <= 1][::3]
        if n == 5:
            its = [it for it in its if it[0].count("older") <= 1 and sum(j is not None for j in it[1]) <= 1]
        ctx.pmap(me, "states_batch", its, chunk=4, meta=meta, sels=cfg["sels"], depth=cfg["depth"])
        done.append(dict(meta, states=len(its), sels=len(cfg["sels"]), perturb_depth=cfg["depth"]))
    litems = [(wf, hi, sel) for wf in ("fork", "chain") for hi in range(len(LOCAL_HISTORIES)) for sel in (None, ["B"])]
    ctx.pmap(me, "local_batch", litems, chunk=1, depth=1 if ctx.tier == "quick" else 2)
    done.append(dict(backend="local", histories=len(LOCAL_HISTORIES), items=len(litems)))
    ctx.traces_validated = ctx.acc.extra["invocations"]
    ctx.acc.extra["states"] = len(ctx.acc.sets["states"])
    ctx.rule = ("case = (job-free project state: per-target freshness x latest-job outcome, selection); for each, all scheduler execution orders are explored "
                "(sched_states counter) and every terminal state + every single perturbation is probed with the real CLI")
    ctx.bound = dict(configs=done)
    ctx.assumptions = ["jobs succeed and create exactly their declared outputs at finish time (the premise of the property)", "scheduler simulators; local pool in C11-C13"]


def replay(case):
    from mc.runner import Acc

    acc = Acc()
    meta = case["meta"]
    if case.get("kind") == "local":
        local_batch(acc, [(meta["wf"], case["hi"], case["sel"])], depth=case.get("depth", 1))
        return acc.violations
    w = make_state(meta["wf"], meta["backend"], tuple(case["state"]["fresh"]), tuple(case["state"]["jobs"]), hashing=meta["hashing"], accounting=meta["accounting"])
    c = dict(case)
    c.pop("history", None)
    converge_and_check(acc, w, case["sel"], c, meta, case.get("depth", 1))
    return acc.violations
