"""C05 — status, dry-run and run agree; the two previews change nothing; filters/formats show restrictions of one table.

E2: BFS over world states (real `gwf run` / scheduler transitions / user perturbations); in every state the real CLI is
probed with every selection and a filter alphabet, and compared relationally + against a frame condition.
"""
import fnmatch
import json
import re

from mc import cliworld as CW
from mc import e2
from mc import world as W

from mc import localchecks
from mc.localchecks import expand as local_expand  # noqa: F401 (looked up by name in the workers)

from mc import freshtier
from mc.freshtier import compare_batch as fresh_compare_batch  # noqa: F401

ID = "C05"
LEVEL = "model_checking"

STATUSES = ("shouldrun", "submitted", "running", "completed", "failed", "cancelled")


def selections(wf):
    names = wf.names()
    sels = [None] + [[n] for n in names[:4]]
    sels.append(["[BC]*"])
    sels.append(["Zz*"])  # a pattern that matches nothing selects nothing
    return sels


def filter_alphabet(wf):
    fl = [dict(s=[st]) for st in STATUSES]
    fl += [dict(s=["shouldrun", "completed"]), dict(s=["failed", "cancelled", "running"]), dict(endpoints=True), dict(endpoints=True, s=["shouldrun"]),
           dict(names=["B"]), dict(names=["[AC]"], s=["shouldrun", "submitted"]), dict(names=["B", "C"], endpoints=True), dict(names=["Z*"])]
    names = wf.names()
    # several name patterns together with each kind of other filter (every filter stage is consumed by the next one)
    fl += [dict(names=[names[0], names[-1]]), dict(names=[names[-1], names[0]], s=["shouldrun"]), dict(names=[names[0], names[1], names[-1]], s=["shouldrun", "completed", "submitted", "running"]),
           dict(names=[names[1], names[0]], s=["completed", "failed", "cancelled"]), dict(names=[names[0], "Z*", names[-1]], endpoints=True, s=["shouldrun", "completed"])]
    return fl


def filter_args(f):
    a = []
    for st in f.get("s", []):
        a += ["-s", st]
    if f.get("endpoints"):
        a.append("--endpoints")
    a += f.get("names", [])
    return a


def parse_summary(out):
    res = {}
    for line in out.splitlines():
        m = re.match(r"^\S+\s+(\w+)\s+(\d+)\s*$", line)
        if m:
            res[m.group(1)] = int(m.group(2))
    return res


def probe(acc, world, trace, meta):
    """All per-state checks. Returns dict R -> world after `run R` (reused as successors)."""
    wf = world.wf
    after_run = {}
    problems = []

    def viol(what, detail, **sig):
        acc.violation(sig=dict(what=what, backend=meta["backend"], **sig), case=dict(meta=meta, trace=trace), observed=detail,
                      msg=f"[{meta['wf']}/{meta['backend']}/hash={meta['hashing']}] after {trace}: {what}: {json.dumps(detail, default=str)[:400]}")

    base_sem = world.semantic()
    with W.Session(world) as s:
        def frame(cmd):
            snap = s.snapshot()
            j = [e for e in s.sim.s["journal"] if e["op"] in ("submit", "cancel")]
            if j:
                viol("preview contacted scheduler", dict(cmd=cmd, journal=[(e["op"], e.get("name")) for e in j]), cmd=cmd[0])
            if snap.semantic() != base_sem:
                a, b = base_sem, snap.semantic()
                diff = {k: (a[k], b[k]) for k in a if a[k] != b[k]}
                viol("preview changed project state", dict(cmd=cmd, diff=diff), cmd=cmd[0], part=sorted(diff)[0])
            if snap.unexpected:
                viol("unexpected files", dict(cmd=cmd, files=snap.unexpected), cmd=cmd[0])

        r = s.gwf(["status"])
        acc.extra["invocations"] += 1
        if r.exit_code != 0 or r.crashed():
            viol("status failed", r.as_dict(), cmd="status")
            return None
        full = W.parse_status(r.stdout)
        order = [l.split()[1] for l in r.stdout.splitlines() if len(l.split()) >= 3]
        if order != wf.names():
            viol("status rows not all targets in creation order", dict(rows=order), cmd="status")
        frame(["status"])
        ref_rows = CW.ref_plan(world)["status"]
        if full != ref_rows:
            viol("status rows differ from the reference plan (scheduler-visible state of each target's latest job, else files)",
                 dict(shown=full, expected=ref_rows), cmd="status-ref")
        # (2) filters and formats
        rel = CW.cone_names(world, None)[2]
        for f in filter_alphabet(wf):
            exp_rows = [n for n in wf.names()
                        if (not f.get("s") or full.get(n) in f["s"])
                        and (not f.get("names") or any(fnmatch.fnmatchcase(n, p) for p in f["names"]))
                        and (not f.get("endpoints") or n in rel["endpoints"])]
            args = ["status"] + filter_args(f)
            r = s.gwf(args)
            acc.extra["invocations"] += 1
            got = [(l.split()[1], l.split()[2]) for l in r.stdout.splitlines() if len(l.split()) >= 3]
            if r.exit_code != 0 or r.crashed() or got != [(n, full[n]) for n in exp_rows]:
                viol("filtered status differs from restriction of the full table", dict(args=args, expected=[(n, full[n]) for n in exp_rows], got=got, result=r.as_dict() if r.exit_code else None),
                     cmd="status-filter", crashed=r.crashed())
            if f.get("s") and len(f["s"]) > 1 or f.get("endpoints") or f.get("names") == ["Z*"] or f.get("s") == ["running"]:
                r = s.gwf(args + ["-f", "summary"])
                acc.extra["invocations"] += 1
                exp_counts = {st: sum(1 for n in exp_rows if full[n] == st) for st in STATUSES}
                if r.exit_code != 0 or r.crashed() or parse_summary(r.stdout) != exp_counts:
                    viol("summary differs from counts of the restricted table", dict(args=args + ["-f", "summary"], expected=exp_counts, got=parse_summary(r.stdout), exc=r.exc),
                         cmd="status-summary", crashed=r.crashed(), empty=not exp_rows)
        frame(["status", "<filters>"])
        # (1) dry-run per selection
        dry = {}
        for sel in selections(wf):
            args = ["run", "-d"] + (sel or [])
            r = s.gwf(args)
            acc.extra["invocations"] += 1
            if r.exit_code != 0 or r.crashed():
                viol("dry-run failed", dict(args=args, result=r.as_dict()), cmd="run-d")
                continue
            dry[json.dumps(sel)] = W.parse_would_submit(r.stderr + r.stdout)
        frame(["run", "-d"])
    for sel in selections(wf):
        cone, roots, _ = CW.cone_names(world, sel)
        expected = sorted(n for n in cone if full.get(n) in ("shouldrun", "failed", "cancelled"))
        with W.Session(world) as s2:
            r = s2.gwf(["run"] + (sel or []))
            acc.extra["invocations"] += 1
            submitted = [e["name"] for e in s2.sim.journal_submits()]
            w_after = s2.snapshot()
        if r.exit_code != 0 or r.crashed():
            viol("run failed", dict(sel=sel, result=r.as_dict()), cmd="run")
            continue
        after_run[json.dumps(sel)] = w_after
        d = dry.get(json.dumps(sel))
        if d is not None and (sorted(d) != expected or sorted(submitted) != expected):
            viol("status / dry-run / run disagree", dict(sel=sel, status_rows=full, cone=sorted(cone), from_status=expected, dry_run=sorted(d), run=sorted(submitted)), cmd="agree")
        acc.case(key=None, outcome=f"sel={'all' if sel is None else len(sel)} n_submit={len(expected)}", nontrivial=False)
    return after_run


def expand(acc, batch, last=False, meta=None, alphabet=None):
    for world, trace in batch:
        key = e2.world_key(world)
        acc.case(key=key, outcome=None, nontrivial=True, sample=dict(meta=meta, trace=trace) if trace else None)
        after_run = probe(acc, world, trace, meta)
        if last or after_run is None:
            continue
        succ = []
        for selj, w2 in after_run.items():
            sel = json.loads(selj)
            if sel is None or sel == [world.wf.names()[1]]:
                succ.append((("gwf", ["run"] + (sel or [])), w2))
        for a in CW.enabled_env(world, kinds=alphabet["env"]):
            succ.append((a, CW.apply_action(world, a)[0]))
        for a in alphabet["user"]:
            if a[0] == "delete" and a[1] not in world.files:
                continue
            succ.append((a, CW.apply_action(world, a)[0]))
        for a, w2 in succ:
            w2.normalize()
            acc.out.append((e2.world_key(w2), w2, trace + [list(a) if not isinstance(a, list) else a]))


def mixed_expand(acc, batch, last=False, meta=None):
    """Mixed-command histories (run / cancel / touch / clean / scheduler steps / perturbations): in every reachable state the status
    table must equal the reference plan, the dry run must announce exactly the plan's submissions, and neither preview may change anything."""
    for world, trace in batch:
        acc.case(key=e2.world_key(world), outcome=None, nontrivial=True, sample=dict(meta=meta, trace=trace) if len(trace) == 3 else None)
        pl = CW.ref_plan(world)
        base_sem = world.semantic()
        with W.Session(world) as s:
            r = s.gwf(["status"])
            rd = s.gwf(["run", "-d"])
            snap = s.snapshot()
            j = [e for e in s.sim.s["journal"] if e["op"] in ("submit", "cancel")]
        acc.extra["invocations"] += 2
        rows = W.parse_status(r.stdout) if r.exit_code == 0 and not r.crashed() else None
        would = sorted(W.parse_would_submit(rd.stderr + rd.stdout)) if rd.exit_code == 0 else None
        case = dict(kind="mixed", meta=meta, trace=trace)
        problems = []
        if rows != pl["status"]:
            problems.append(f"status {rows} expected {pl['status']}")
        if would != sorted(pl["submitted"]):
            problems.append(f"dry run announces {would}, plan submits {sorted(pl['submitted'])}")
        if j or snap.semantic() != base_sem:
            problems.append("previews changed the project or contacted the scheduler")
        acc.case(key=None, outcome=f"mixed rows={sorted(set((rows or {}).values()))}", nontrivial=False)
        if problems:
            acc.violation(sig=dict(what="mixed-command history: " + problems[0].split(" ")[0], backend=meta["backend"], last=trace[-1][1][0] if trace and trace[-1][0] == "gwf" else (trace[-1][0] if trace else None)),
                          case=case, observed=problems, msg=f"[{meta['wf']}/{meta['backend']}/hash={meta['hashing']}] after {trace}: {problems}")
        if last:
            continue
        names = world.wf.names()
        acts = [("gwf", ["run"]), ("gwf", ["run", names[1]]), ("gwf", ["cancel", "-f"]), ("gwf", ["cancel", names[1]]), ("carry_out_cancels",), ("gwf", ["touch"]), ("gwf", ["touch", names[1]]),
                ("gwf", ["clean", "-f", "--all"]), ("gwf", ["clean", names[0]]), ("modify", "src"), ("delete", world.wf.targets[0].flat("outputs")[0]), ("editspec", names[1])]
        acts += CW.enabled_env(world, kinds=("start", "finish_ok", "finish_fail", "forget"))
        for a in acts:
            if a[0] == "delete" and a[1] not in world.files:
                continue
            w2, res = CW.apply_action(world, a)
            if res is not None and res.crashed():
                acc.violation(sig=dict(what="mixed-command history: command crashed", backend=meta["backend"], last=a[1][0]), case=dict(kind="mixed", meta=meta, trace=trace + [list(a)]),
                              observed=res.as_dict(), msg=f"[{meta}] after {trace}: gwf {a[1]} crashed: {res.exc}")
                continue
            w2.normalize()
            acc.out.append((e2.world_key(w2), w2, trace + [list(a)]))


CONFIGS_QUICK = [
    # (workflow, backend, accounting, hashing, fresh, depth)
    ("fork", "slurm", True, False, False, 4),
    ("fork", "slurm", False, False, True, 3),
    ("chain", "sge", True, False, False, 3),
    ("fork", "lsf", True, True, False, 3),
    ("diamond", "slurm", True, True, True, 2),
    # a redundant edge whose far end sorts after the near one (X needs B and C, B needs C): order-sensitive traversals show here
    ("shortcut", "slurm", True, False, False, 3),
    ("shortcut", "lsf", True, True, True, 2),
]
CONFIGS_THOROUGH = [
    (wf, be, acct, hashing, fresh, d)
    for wf, d in (("fork", 6), ("chain", 6), ("diamond", 4), ("shortcut", 5))
    for be, acct in (("slurm", True), ("slurm", False), ("sge", True), ("lsf", True))
    for hashing in (False, True)
    for fresh in (False, True)
    if not (hashing and be in ("sge",) and wf == "diamond")
]


def alphabet_for(wfname):
    wf = CW.WORKFLOWS[wfname]()
    first_out = wf.targets[0].flat("outputs")[0]
    last_out = [o for t in wf.targets for o in t.flat("outputs")][-1]
    return dict(env=("start", "finish_ok", "finish_fail", "cancel", "forget"), user=[("modify", "src"), ("delete", first_out), ("delete", last_out)])


def init5(wfname, backend, **kw):
    """Initial world with log files of a target that is no longer in the workflow: a real run may tidy them up, a preview may not."""
    w = CW.init_world(wfname, backend, **kw)
    w.logs = dict(w.logs or {}, **{"Gone.stdout": "output of a target removed from the workflow\n", "Gone.stderr": ""})
    return w


def run(ctx):
    import mc.checks.c05 as me

    configs = CONFIGS_QUICK if ctx.tier == "quick" else CONFIGS_THOROUGH
    done = []
    for wfname, backend, acct, hashing, fresh, depth in configs:
        meta = dict(wf=wfname, backend=backend, accounting=acct, hashing=hashing, fresh=fresh)
        w0 = init5(wfname, backend, hashing=hashing, fresh=fresh, accounting=acct)
        lv = e2.bfs(ctx, me, "expand", [w0], depth, chunk=2, meta=meta, alphabet=alphabet_for(wfname))
        done.append(dict(meta, depth=depth, levels_completed=lv))
    # from a project that was built by jobs the scheduler still remembers as completed (accounting): the states in which a finished job's
    # record and the files can disagree are one step away
    for wfname, backend, hashing, depth in ([("fork", "slurm", False, 2), ("chain", "slurm", True, 2)] if ctx.tier == "quick" else
                                            [("fork", "slurm", False, 4), ("chain", "slurm", True, 4), ("shortcut", "slurm", False, 3), ("diamond", "slurm", False, 2)]):
        names = CW.WORKFLOWS[wfname]().names()
        prefix = [("gwf", ["run"])] + [(("env", st, n)) for n in names for st in ("start", "finish_ok")]
        meta = dict(wf=wfname, backend=backend, accounting=True, hashing=hashing, fresh=False)
        w0 = CW.build(wfname, backend, prefix, hashing=hashing, accounting=True)
        lv = e2.bfs(ctx, me, "expand", [(w0, [list(a) for a in prefix])], depth, chunk=2, meta=meta, alphabet=alphabet_for(wfname))
        done.append(dict(meta, init="built by completed jobs", depth=depth, levels_completed=lv))
    for wfname, backend, hashing, depth in ([("fork", "slurm", True, 2), ("chain", "lsf", False, 2)] if ctx.tier == "quick" else
                                            [("fork", "slurm", True, 4), ("chain", "lsf", False, 4), ("fork", "sge", True, 3), ("diamond", "slurm", False, 3)]):
        meta = dict(wf=wfname, backend=backend, accounting=True, hashing=hashing, fresh=False, mixed=True)
        e2.bfs(ctx, me, "mixed_expand", [CW.init_world(wfname, backend, hashing=hashing), CW.init_world(wfname, backend, hashing=hashing, fresh=True)], depth, chunk=2, meta=meta)
        done.append(dict(meta, depth=depth))
    local_done = localchecks.run_local(ctx, me, ID, [("fork", 3)] if ctx.tier == "quick" else [("fork", 5), ("twocomp", 4)])
    ctx.notes.setdefault("coverage_extra", {})["local_backend"] = local_done
    ctx.traces_validated = ctx.acc.extra["transitions"]
    ctx.pmap(me, "fresh_compare_batch", freshtier.items([(["status"], None), (["run", "-d"], None), (["run"], None), (["run", "B"], None), (["status", "-s", "shouldrun", "--endpoints"], None), (["info"], None)], backends=("slurm", "sge", "lsf") if ctx.tier != "quick" else ("slurm", "lsf")), chunk=2)
    ctx.notes.setdefault("coverage_extra", {})["fresh_process_cases"] = ctx.acc.extra["fresh_processes"]
    ctx.rule = ("state = canonical world (file ranks+contents, tracked-job descriptors, hash records, logs); in each state every selection x "
                "{status, run -d, run} and the filter/format alphabet are executed on the real CLI; non-trivial = distinct canonical state")
    ctx.bound = dict(configs=done)
    ctx.notes["single_outcome_ok"] = False
    ctx.assumptions = ["scheduler simulators (mc/simsched.py) stand in for Slurm/SGE/LSF", "every transition is an execution of the real gwf CLI in-process; "
                       "traces_validated_against_impl counts those transitions (the model *is* the implementation; only the environment is modelled)"]


def replay(case):
    if case.get("kind") == "fresh":
        from mc.runner import Acc

        acc = Acc()
        for it in freshtier.items([(["status"], None), (["run", "-d"], None), (["run"], None), (["run", "B"], None), (["status", "-s", "shouldrun", "--endpoints"], None), (["info"], None)]):
            if it[0] == case["label"] and it[2] == case["args"]:
                freshtier.compare_batch(acc, [it])
        return acc.violations
    if case.get("kind") == "local":
        return localchecks.replay(case)
    from mc.runner import Acc

    meta, trace = case["meta"], case["trace"]
    if case.get("kind") == "mixed":
        from mc.runner import Acc

        for fresh in (False, True):
            w = CW.init_world(meta["wf"], meta["backend"], hashing=meta["hashing"], fresh=fresh)
            try:
                for a in trace:
                    a = tuple(a) if a[0] != "gwf" else ("gwf", a[1])
                    w, _ = CW.apply_action(w, a)
                    w.normalize()
            except Exception:
                continue
            acc = Acc()
            mixed_expand(acc, [(w, trace)], last=True, meta=meta)
            if acc.violations:
                return acc.violations
        return []
    w = init5(meta["wf"], meta["backend"], hashing=meta["hashing"], fresh=meta["fresh"], accounting=meta["accounting"])
    for a in trace:
        a = tuple(a) if a[0] != "gwf" else ("gwf", a[1])
        w, _ = CW.apply_action(w, a)
        w.normalize()
    acc = Acc()
    probe(acc, w, trace, meta)
    return acc.violations
