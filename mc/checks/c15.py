"""C15 — clean deletes only unprotected declared outputs of the selected targets.

E1 on the real CLI: workflows x subsets of existing files (+ an unrelated file, a log, tracked + hash state files) x --all x --force x
target arguments x prompt answers x protect sets (incl. spellings that differ from the output's). Before/after snapshot of the whole
project compared with the reference deletion set.
"""
import fnmatch
import itertools
import json
import os

from mc import cliworld as CW
from mc import world as W
from mc.ref import graph as G
from mc.ref.paths import resolve

from mc import freshtier
from mc.freshtier import compare_batch as fresh_compare_batch  # noqa: F401

ID = "C15"
LEVEL = "exploration"

PROJ = "@PROJ@"


def workflows():
    T = W.T
    return {
        "chain": [("A", ["src"], ["a"]), ("B", ["a"], ["b"]), ("C", ["b"], ["c"])],
        "fork2out": [("A", ["src"], ["a1", "a2"]), ("B", ["a1"], ["b"]), ("C", ["a2"], {"x": "c"})],
        "diamond": [("A", ["src"], ["a"]), ("B", ["a"], ["b"]), ("C", ["a"], ["c"]), ("D", ["b", "c"], ["d"])],
        "twocomp": [("A", ["src"], ["a"]), ("B", ["a"], ["b"]), ("X", ["src2"], ["sub/x"]), ("Y", ["sub/x"], [])],
        # A declares a *directory* as its output; other targets' outputs and an unrelated file live inside it. Whatever clean does with
        # the directory itself, files in it that are not unprotected outputs of a selected target stay.
        "diroutput": [("A", ["src"], ["outdir"]), ("B", ["outdir"], ["outdir/b"]), ("C", ["outdir/b"], ["c"])],
    }


DIR_OUTPUTS = {"outdir"}


SPELLINGS = [lambda p: p, lambda p: "./" + p, lambda p: f"{PROJ}/{p}", lambda p: f"{PROJ}/./{p}", lambda p: f"sub/../{p}"]


def protect_variants(defs):
    """(label, {target: [protect spellings]})"""
    outs = [(n, o) for n, _i, o_ in defs for o in W.T(n, [], o_).flat("outputs")]
    res = [("none", {})]
    for n, o in outs:
        for k, sp in enumerate(SPELLINGS):
            res.append((f"{n}:{o}:sp{k}", {n: [sp(o)]}))
    allp = {}
    for n, o in outs:
        allp.setdefault(n, []).append(o)
    res.append(("all", allp))
    # a path protected by a target that does not produce it protects nothing
    res.append(("foreign", {defs[0][0]: [outs[-1][1]]}))
    return res


def cli_variants(names):
    v = []
    for allf in (False, True):
        for force in (False, True):
            for tg in [[], [names[0]], [names[1]], [names[-1]], ["[AB]"], ["Zz*"], [names[0], names[-1]]]:
                if not tg and not force:
                    for ans in ("y\n", "n\n", ""):
                        v.append((allf, force, tg, ans))
                else:
                    v.append((allf, force, tg, None))
    return v


def expected(defs, prot, existing, allf, tg, proj="/proj"):
    names = [d[0] for d in defs]
    tl = [(n, {resolve(proj, p) for p in W.T(n, i, []).flat("inputs")}, {resolve(proj, p) for p in W.T(n, [], o).flat("outputs")}) for n, i, o in defs]
    rel = G.relations(tl)
    sel = set(names) if not tg else {n for p in tg for n in names if fnmatch.fnmatchcase(n, p)}
    if not allf:
        sel -= rel["endpoints"]
    removed = set()
    for n, _ins, outs in tl:
        if n not in sel:
            continue
        protected = {resolve(proj, p.replace(PROJ, proj)) for p in prot.get(n, [])}
        for o in outs:
            if o not in protected:
                removed.add(o)
    return sel, {p for p in existing if resolve(proj, p) in removed}


def case_batch(acc, batch):
    for item in batch:
        wname, plabel, missing = item[:3]
        symlinked = item[3] if len(item) > 3 else None
        where = item[4] if len(item) > 4 else "proj"  # directory gwf is started from: the project, a sub-directory (workflow found upwards), a sub-directory with -f
        defs = workflows()[wname]
        prot = dict(protect_variants(defs))[plabel]
        names = [d[0] for d in defs]
        late = where == "late-protect"
        if late:
            where = "proj"
        wf = W.Workflow([W.T(n, i, o, spec=f"echo {n}\n", protect=prot.get(n), how="target_late_protect" if (late and prot.get(n)) else "target") for n, i, o in defs])
        declared = sorted({p for t in wf.targets for p in t.flat("inputs") + t.flat("outputs")})
        files = {p: (k + 1, "content:" + p) for k, p in enumerate(declared) if p not in missing and p not in DIR_OUTPUTS}
        if wname == "diroutput":
            files["outdir/keep.txt"] = (1, "a file of the user's inside the output directory")
        for s in CW.sources(wf):
            files[s] = (1, "src")
        files["unrelated.txt"] = (1, "keep me")
        if symlinked:
            # this declared output exists as a symbolic link to a file that is *not* a declared output: clean may remove the link,
            # never the file it points to
            files[symlinked] = (files.get(symlinked, (2, ""))[0], ("symlink", "unrelated.txt"))
        files["sub/other"] = (1, "keep me too")
        if where != "proj":
            # decoys: files with the declared outputs' relative names under the directory gwf is started from
            for p in declared:
                if p not in DIR_OUTPUTS:
                    files.setdefault("sub/" + p, (1, "decoy:" + p))
        hashes = {n: W.sha1(f"echo {n}\n") for n in names}
        w0 = W.World(wf, files=files, conf={"backend": "slurm", "use_spec_hashes": True}, tracked={"slurm": {names[0]: "1"}}, hashes=hashes,
                     logs={names[0] + ".stdout": "log\n", "Old.stderr": "old\n"})
        for allf, force, tg, ans in cli_variants(names):
            args = ["clean"] + (["--all"] if allf else []) + (["-f"] if force else []) + tg
            with W.Session(w0) as s:
                if where == "proj":
                    r = s.gwf(args, input=ans)
                else:
                    r = s.gwf((["-f", "../workflow.py"] if where == "subdir-f" else []) + args, input=ans, cwd=os.path.join(s.proj, "sub"))
                after = s.snapshot()
                journal = [e for e in s.sim.s["journal"] if e["op"] in ("submit", "cancel")]
            acc.extra["invocations"] += 1
            case = dict(wf=wname, protect=plabel, missing=missing, args=args, answer=ans, symlinked=symlinked, where="late-protect" if late else where)
            declined = ans in ("n\n", "")
            sel, exp_removed = expected(defs, prot, {p for p in files if p in declared}, allf, tg)
            exp_files = dict(w0.files)
            exp_hashes = dict(hashes)
            if not declined:
                for p in exp_removed:
                    exp_files.pop(p)
                for n in sel:
                    exp_hashes.pop(n, None)
            problems = []
            if r.crashed():
                problems.append(f"crash {r.exc}")
            if declined and r.exit_code == 0:
                problems.append("declined prompt but exit 0")
            if not declined and r.exit_code != 0:
                problems.append(f"exit {r.exit_code}: {r.err_summary()}")
            got_files = dict(after.files)
            if got_files != exp_files:
                wrongly_removed = sorted(set(exp_files) - set(got_files))
                not_removed = sorted(set(got_files) - set(exp_files))
                changed = sorted(p for p in set(got_files) & set(exp_files) if got_files[p] != exp_files[p])
                problems.append(f"files: wrongly removed {wrongly_removed}, not removed {not_removed}, changed {changed}")
            if (after.hashes or {}) != exp_hashes:
                problems.append(f"hash records {sorted(after.hashes or {})} expected {sorted(exp_hashes)}")
            if after.logs != w0.logs or (after.tracked or {}).get("slurm") != {names[0]: "1"} or journal:
                problems.append("logs / tracked jobs / scheduler touched")
            acc.case(key=json.dumps(case, sort_keys=True), outcome=f"removed={len(exp_removed) if not declined else 0} declined={declined}", sample=case, nontrivial=True)
            if problems:
                acc.violation(sig=dict(what=problems[0].split(":")[0][:40], protect="spelled" if ":sp" in plabel and not plabel.endswith("sp0") else plabel.split(":")[0] if ":" not in plabel else "same"),
                              case=case, expected=dict(removed=sorted(exp_removed), selected=sorted(sel)), observed=problems,
                              msg=f"`gwf {' '.join(args)}` (answer {ans!r}, started from {where}) on {wname}, protect={plabel}, missing={missing}: {problems}")


def run(ctx):
    import mc.checks.c15 as me

    quick = ctx.tier == "quick"
    items = []
    for wname, defs in workflows().items():
        outs = sorted({o for n, i, o_ in defs for o in W.T(n, [], o_).flat("outputs")} - DIR_OUTPUTS)
        miss_sets = [()] + [(o,) for o in outs] + ([tuple(outs)] if True else [])
        if not quick:
            miss_sets = [tuple(c) for k in range(len(outs) + 1) for c in itertools.combinations(outs, k)]
        pv = protect_variants(defs)
        for plabel, _ in pv:
            for missing in (miss_sets if plabel in ("none", "all") or not quick else miss_sets[:2]):
                items.append((wname, plabel, missing))
        for o in outs[:2] if quick else outs:
            if "/" not in o:
                items.append((wname, "none", (), o))
    for wname in workflows():
        for plabel, pmap_ in protect_variants(workflows()[wname]):
            if pmap_ and (not quick or plabel in ("all", "foreign") or plabel.endswith("sp0") or plabel.endswith("sp2")):
                items.append((wname, plabel, (), None, "late-protect"))
        for where in ("subdir", "subdir-f"):
            for plabel in ("none", "all") if quick else [l for l, _ in protect_variants(workflows()[wname])]:
                items.append((wname, plabel, (), None, where))
    ctx.pmap(me, "case_batch", items, chunk=2)
    ctx.pmap(me, "fresh_compare_batch", freshtier.items([(["clean", "-f", "--all"], None), (["clean"], "n\n"), (["clean", "A"], None), (["clean", "--all", "C"], None)], backends=("slurm", "sge", "lsf") if ctx.tier != "quick" else ("slurm", "lsf")), chunk=2)
    ctx.notes.setdefault("coverage_extra", {})["fresh_process_cases"] = ctx.acc.extra["fresh_processes"]
    ctx.rule = "case = (workflow, protect set incl. spelling, set of missing outputs, --all, --force, target arguments, prompt answer, directory gwf is started from); non-trivial = all"
    ctx.bound = dict(workflows=list(workflows()), protect_spellings=len(SPELLINGS), cli_variants=len(cli_variants(["A", "B", "C"])), items=len(items))
    ctx.assumptions = ["lexical normalisation of protect paths (same as outputs)"]


def replay(case):
    if case.get("kind") == "fresh":
        from mc.runner import Acc

        acc = Acc()
        for it in freshtier.items([(["clean", "-f", "--all"], None), (["clean"], "n\n"), (["clean", "A"], None), (["clean", "--all", "C"], None)]):
            if it[0] == case["label"] and it[2] == case["args"]:
                freshtier.compare_batch(acc, [it])
        return acc.violations
    from mc.runner import Acc

    acc = Acc()
    case_batch(acc, [(case["wf"], case["protect"], tuple(case["missing"]), case.get("symlinked"), case.get("where", "proj"))])
    return [v for v in acc.violations if v["case"]["args"] == case["args"] and v["case"]["answer"] == case["answer"]]
