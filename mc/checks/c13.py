"""C13 — local worker pool, decided by E3 (mc/poolx.py): deviation-bounded exhaustive exploration of the real
gwf.backends.local.Scheduler / Server on a virtual event loop. See mc/poolx.py for the monitors of this property."""
from mc import poolcheck

ID = "C13"
LEVEL = "model_checking"


def pool_batch(acc, batch, **kw):
    poolcheck.pool_batch(acc, batch, **kw)


def prune_validation_batch(acc, batch, **kw):
    poolcheck.prune_validation_batch(acc, batch, **kw)


def real_trace_batch(acc, batch, **kw):
    poolcheck.real_trace_batch(acc, batch, **kw)


def real_output_batch(acc, batch, **kw):
    poolcheck.real_output_batch(acc, batch, **kw)


def real_kill_batch(acc, batch, **kw):
    poolcheck.real_kill_batch(acc, batch, **kw)


def run(ctx):
    import mc.checks.c13 as me

    poolcheck.run_pool(ctx, me, ID)


def replay(case):
    return poolcheck.replay_pool(case, ID)
