"""C10 — job scripts run the spec faithfully with the resolved resource options.

E1: 'options'  per backend and option: every combination of the three user sources (workflow defaults, template options, per-target
               keyword) over {absent, value1, value2, None} (64 combos) + an unknown option at each source + SGE memory x cores; the script
               captured on the simulated sbatch/qsub/bsub stdin is read by an independent directive reader.
    'exec'     every spec of <=L lines over a 7-line alphabet (with/without trailing newline, empty) x working-directory names with shell
               metacharacters x backend/log mode: the generated script is *executed* with bash from a foreign cwd, stdout/stderr routed as its
               own directives say, and compared with the reference execution `cd <wd> && bash -e` of the bare spec (files, exit status, output);
               `gwf logs T [-e]` must print those bytes.
    'logs'     log cleaning by `gwf run`: subsets of log files x target sets x clean_logs on/off x dry-run.
"""
import itertools
import json
import os
import re
import shutil
import subprocess

from mc import simsched
from mc import world as W

ID = "C10"
LEVEL = "exploration"

# ---------------------------------------------------------------------------------------------- directive reader

READERS = {
    # both spellings sbatch documents for each option are read
    "slurm": dict(prefix="#SBATCH", flags=[("--job-name=", "job_name"), ("-J ", "job_name"), ("--output=", "stdout"), ("-o ", "stdout"), ("--error=", "stderr"), ("-e ", "stderr"),
                                           ("--mem=", "memory"), ("--mail-type=", "mail_type"), ("--mail-user=", "mail_user"), ("--qos=", "qos"), ("-q ", "qos"), ("--gres=", "gres"),
                                           ("-N ", "nodes"), ("--nodes=", "nodes"), ("-c ", "cores"), ("--cpus-per-task=", "cores"), ("-t ", "walltime"), ("--time=", "walltime"),
                                           ("-p ", "queue"), ("--partition=", "queue"), ("-A ", "account"), ("--account=", "account"), ("-C ", "constraint"), ("--constraint=", "constraint")]),
    "sge": dict(prefix="#$", flags=[("-N ", "job_name"), ("-o ", "stdout"), ("-e ", "stderr"), ("-pe smp ", "cores"), ("-l h_vmem=", "memory"), ("-l h_rt=", "walltime"),
                                     ("-q ", "queue"), ("-P ", "account"), ("-V", "_V"), ("-w v", "_w"), ("-cwd", "_cwd")]),
    "lsf": dict(prefix="#BSUB", flags=[("-J ", "job_name"), ("-oo ", "stdout"), ("-eo ", "stderr"), ("-M ", "memory"), ("-n ", "cores"), ("-q ", "queue"), ("-R ", "_R")]),
}

DEFAULTS = {
    "slurm": {"cores": 1, "memory": "1g", "walltime": "01:00:00", "nodes": None, "queue": None, "account": None, "constraint": None, "mail_type": None, "mail_user": None, "qos": None, "gres": None},
    "sge": {"cores": 1, "memory": "1g", "walltime": "01:00:00", "queue": None, "account": None},
    "lsf": {"queue": "normal", "memory": "4GB", "cores": 1},
}


def read_directives(kind, script):
    """-> (dict name -> list of values, list of unparsed directive lines)"""
    rd = READERS[kind]
    found, unknown = {}, []
    for line in script.splitlines():
        if not line.startswith(rd["prefix"] + " "):
            continue
        rest = line[len(rd["prefix"]) + 1:]
        for flag, name in rd["flags"]:
            if rest.startswith(flag):
                found.setdefault(name, []).append(rest[len(flag):])
                break
        else:
            unknown.append(line)
    return found, unknown


def resolve(kind, option, srcs):
    """precedence backend default < workflow default < template < keyword; a source that is present wins even with None"""
    val = DEFAULTS[kind].get(option)
    for s in srcs:  # in increasing precedence
        if s != "absent":
            val = s
    return val


def submit_and_capture(kind, wf_defaults, tpl_options, kw_options, log_mode=None, scratch=None):
    """Build the target the way a user would and submit it through the real backend; returns (script, argv, warnings, error)."""
    import logging

    import gwf.backends.utils as bu
    from gwf import AnonymousTarget, Workflow
    from gwf.core import NoopSpecHashes
    from gwf.scheduling import submit_backend

    sim = simsched.Sim(simsched.new_state(kind, foreign=False))
    saved = bu.subprocess, bu.shutil
    bu.subprocess, bu.shutil = simsched.PopenShim(sim), simsched.WhichShim(sim)
    records = []

    class H(logging.Handler):
        def emit(self, rec):
            records.append((rec.levelname, rec.getMessage()))

    h = H()
    root = logging.getLogger()
    root.addHandler(h)
    old = root.level
    root.setLevel(logging.WARNING)
    try:
        wf = Workflow(working_dir=scratch, defaults=dict(wf_defaults))
        t = wf.target_from_template("T", AnonymousTarget(inputs=[], outputs=[], options=dict(tpl_options), spec="echo hi\n"), **kw_options)
        mod = __import__(f"gwf.backends.{kind}", fromlist=["create_backend"])
        os.makedirs(os.path.join(scratch, ".gwf", "logs"), exist_ok=True)
        be = mod.create_backend(scratch, **({"log_mode": log_mode} if log_mode else {}))
        try:
            submit_backend(t, [], be, NoopSpecHashes())
            err = None
        except Exception as e:
            err = f"{type(e).__name__}: {e}"
        subs = sim.journal_submits()
        script = subs[0]["script"] if subs else None
        argv = subs[0]["argv"] if subs else None
    finally:
        bu.subprocess, bu.shutil = saved
        root.removeHandler(h)
        root.setLevel(old)
    return script, argv, records, err


def options_batch(acc, batch):
    from mc.runner import worker_scratch

    scratch = os.path.join(worker_scratch("c10"), "optproj")
    os.makedirs(scratch, exist_ok=True)
    for kind, option, v1, v2 in batch:
        dom = ["absent", v1, v2, None]
        for srcs in itertools.product(dom, repeat=3):
            mk = lambda s: {} if s == "absent" else {option: s}
            script, argv, records, err = submit_and_capture(kind, mk(srcs[0]), mk(srcs[1]), mk(srcs[2]), scratch=scratch)
            want = resolve(kind, option, srcs)
            case = dict(kind="options", backend=kind, option=option, sources=srcs)
            problems = check_script(kind, script, err, {**{k: v for k, v in DEFAULTS[kind].items()}, option: want}, records, unknown=None)
            acc.case(key=json.dumps(case, default=str), outcome=f"{kind} {option} -> {'None' if want is None else 'value'} ok={not problems}", sample=case)
            if problems:
                acc.violation(sig=dict(kind="options", backend=kind, what=problems[0].split(":")[0][:40], none=want is None), case=case, expected=want, observed=problems,
                              msg=f"{kind} option {option} from (workflow default, template, keyword)={srcs}: resolved value must be {want!r}: {problems[:2]}")
        # unknown option at each source
        for pos in range(3):
            srcs = [{}, {}, {}]
            srcs[pos] = {"bogus_opt": "zzz"}
            script, argv, records, err = submit_and_capture(kind, *srcs, scratch=scratch)
            case = dict(kind="options", backend=kind, option="bogus_opt", sources=pos)
            problems = check_script(kind, script, err, dict(DEFAULTS[kind]), records, unknown="bogus_opt")
            acc.case(key=json.dumps(case), outcome=f"{kind} unknown option ok={not problems}", sample=case)
            if problems:
                acc.violation(sig=dict(kind="options", backend=kind, what="unknown option"), case=case, observed=problems, msg=f"{kind}: unknown option given at source {pos}: {problems[:2]}")


def sge_memory_batch(acc, batch):
    from mc.runner import worker_scratch

    scratch = os.path.join(worker_scratch("c10"), "optproj")
    os.makedirs(scratch, exist_ok=True)
    for mem, cores in batch:
        kw = {}
        if mem != "absent":
            kw["memory"] = mem
        if cores != "absent":
            kw["cores"] = cores
        script, argv, records, err = submit_and_capture("sge", {}, {}, kw, scratch=scratch)
        exp = dict(DEFAULTS["sge"])
        exp.update(kw)
        case = dict(kind="sge_memory", memory=mem, cores=cores)
        problems = check_script("sge", script, err, exp, records, unknown=None)
        acc.case(key=json.dumps(case), outcome=f"sge mem ok={not problems}", sample=case)
        if problems:
            acc.violation(sig=dict(kind="sge_memory", cores_none=cores is None, mem_none=mem is None), case=case, observed=problems, msg=f"SGE memory={mem!r} cores={cores!r}: {problems[:2]}")


def check_script(kind, script, err, resolved, records, unknown):
    problems = []
    if err or script is None:
        return [f"submission failed: {err}"]
    found, unk = read_directives(kind, script)
    if unk:
        problems.append(f"unreadable directive lines: {unk}")
    if "{" in "".join(l for l in script.splitlines() if l.startswith(READERS[kind]["prefix"])):
        problems.append("placeholder text left in a directive: " + str([l for l in script.splitlines() if l.startswith(READERS[kind]["prefix"]) and "{" in l]))
    for name, vals in found.items():
        if len(set(vals)) > 1:
            problems.append(f"directive {name} given twice with different values {vals}")
    for opt, want in resolved.items():
        got = found.get(opt)
        if want is None:
            if got is not None:
                problems.append(f"option {opt} resolved to None but directive present: {got}")
            continue
        exp = str(want)
        if kind == "sge" and opt == "memory":
            cores = resolved.get("cores")
            m = re.fullmatch(r"(\d+)(\D*)", str(want))
            if cores is None:
                exp = None  # per-core memory undefined without a core count: any value derived from the total is acceptable, a crash is not
            else:
                exp = f"{int(m.group(1)) // int(cores)}{m.group(2)}"
        same_meaning = set()
        if opt == "walltime" and isinstance(want, (int, float)) and not isinstance(want, bool) and kind in ("slurm", "sge"):
            # a bare number means minutes to sbatch and seconds to SGE's h_rt: the equivalent clock spellings say the same thing
            secs = int(want * (60 if kind == "slurm" else 1))
            hms = (secs // 3600, secs % 3600 // 60, secs % 60)
            same_meaning = {"%02d:%02d:%02d" % hms, "%d:%02d:%02d" % hms} | ({"%d:%02d" % (secs // 60, secs % 60)} if kind == "slurm" else set())
        if got is None:
            problems.append(f"option {opt}={want!r}: no directive")
        elif exp is not None and got[0] != exp and got[0] not in same_meaning:
            problems.append(f"option {opt}: directive says {got[0]!r}, resolved value is {exp!r}")
    if kind == "lsf" and "_R" in found and resolved.get("memory") is not None:
        if str(resolved["memory"]) not in found["_R"][0]:
            problems.append(f"-R resource string {found['_R'][0]!r} does not carry memory {resolved['memory']!r}")
    if unknown:
        if unknown in script or "zzz" in script:
            problems.append("unknown option reached the script")
        if not any(lv == "WARNING" and unknown in msg for lv, msg in records):
            problems.append("no warning logged for the unknown option")
    return problems


# ---------------------------------------------------------------------------------------------- execution

SPEC_LINES = ["echo a > f1", 'echo "q $V" >> f2', "printf '%s\\n' '$no {memory} %d {queue}'", "false", "exit 3", "cat <<EOF\nhere {cores} doc\nEOF", "echo err >&2",
              "false | cat >> f2"]  # a pipeline whose first stage fails succeeds in bash (no pipefail): the spec goes on
DIRNAMES = ["plain", "with space", "quo'te", 'dq"x', "do$llar", "semi;colon", "amp&and", "star*", "(paren)", "tilde~", "back\\slash", "#hash"]
MODES = [("slurm", "full"), ("slurm", "merged"), ("slurm", "none"), ("sge", None), ("lsf", None)]


def specs(L):
    out = [""]
    for n in range(1, L + 1):
        for combo in itertools.product(range(len(SPEC_LINES)), repeat=n):
            body = "\n".join(SPEC_LINES[i] for i in combo)
            out.append(body + "\n")
            if n <= 2:
                out.append(body)  # without trailing newline
    return out


def ref_exec(spec, wd):
    """Reference: the bare spec, in the working directory, stopping at the first failing command."""
    for f in os.listdir(wd):
        os.remove(os.path.join(wd, f))
    # stdin from /dev/null: with a socket as stdin bash believes it was started by rshd/sshd and sources ~/.bashrc
    p = subprocess.run(["/bin/bash", "--norc", "--noprofile", "-e", "-c", spec], cwd=wd, capture_output=True, stdin=subprocess.DEVNULL, env={"PATH": "/usr/bin:/bin"})
    files = {f: open(os.path.join(wd, f), "rb").read() for f in sorted(os.listdir(wd))}
    return dict(rc=p.returncode, out=p.stdout, err=p.stderr, files=files)


def run_script(kind, script, wd, foreign):
    """Execute the generated script as the scheduler would: from a foreign cwd, stdout/stderr to the files its directives name."""
    for f in os.listdir(wd):
        os.remove(os.path.join(wd, f))
    found, _ = read_directives(kind, script)
    so = found.get("stdout", [None])[0]
    se = found.get("stderr", [None])[0]
    path = os.path.join(foreign, "job.sh")
    open(path, "w").write(script)
    unopenable = []

    def _open(path):
        try:
            return open(path, "wb")
        except OSError as e:  # the scheduler could not create the file either: the output is lost
            unopenable.append(f"{path}: {type(e).__name__}")
            return subprocess.DEVNULL

    out_f = _open(so) if so else subprocess.DEVNULL
    if se:
        err_f = _open(se)
    elif kind == "slurm":
        err_f = subprocess.STDOUT  # Slurm: without --error, stderr goes to the --output file
    else:
        err_f = subprocess.DEVNULL
    p = subprocess.run(["/bin/bash", "--norc", "--noprofile", path], cwd=foreign, stdout=out_f, stderr=err_f, stdin=subprocess.DEVNULL,
                       env={"PATH": "/usr/bin:/bin", "SLURM_JOBID": "42", "SGE_JOBID": "42"})
    for f in (out_f, err_f):
        if hasattr(f, "close"):
            f.close()
    files = {f: open(os.path.join(wd, f), "rb").read() for f in sorted(os.listdir(wd))}
    stray = sorted(f for f in os.listdir(foreign) if f != "job.sh")
    return dict(rc=p.returncode, files=files, stray=stray, so=so, se=se, unopenable=unopenable)


def exec_batch(acc, batch):
    from mc.runner import worker_scratch

    base = os.path.join(worker_scratch("c10"), "exec")
    for spec, dirname, (kind, log_mode) in batch:
        shutil.rmtree(base, ignore_errors=True)
        proj = os.path.join(base, "proj")
        wd = os.path.join(proj, dirname)
        foreign = os.path.join(base, "foreign")
        os.makedirs(wd)
        os.makedirs(foreign)
        conf = {"backend": kind}
        if log_mode:
            conf["backend.slurm.log_mode"] = log_mode
        wf = W.Workflow([W.T("T", [], [], spec=spec)], working_dir="@PROJ@/" + dirname)
        w = W.World(wf, files={}, conf=conf)
        case = dict(kind="exec", spec=spec, dirname=dirname, backend=kind, log_mode=log_mode)
        problems = []
        with W.Session(w, root=base) as s:
            os.makedirs(os.path.join(s.proj, dirname), exist_ok=True)
            r = s.gwf(["run"])
            subs = s.sim.journal_submits()
            if r.exit_code != 0 or len(subs) != 1:
                problems.append(f"run failed: {r.exc or r.err_summary()}")
            else:
                script = subs[0]["script"]
                twd = os.path.join(s.proj, dirname)
                ref = ref_exec(spec, twd)
                got = run_script(kind, script, twd, foreign)
                if got["files"] != ref["files"]:
                    problems.append(f"files in the working directory differ: {sorted(got['files'])} vs reference {sorted(ref['files'])} (or contents)")
                if got["unopenable"]:
                    problems.append(f"log file named by the script's directives cannot be created: {got['unopenable']}")
                if got["stray"]:
                    problems.append(f"files created outside the working directory (script ran elsewhere): {got['stray']}")
                if (got["rc"] == 0) != (ref["rc"] == 0) or (ref["rc"] != 0 and got["rc"] != ref["rc"]):
                    problems.append(f"exit status {got['rc']} vs reference {ref['rc']}")
                logs = os.path.join(s.proj, ".gwf", "logs")
                want_out, want_err = ref["out"], ref["err"]
                exp_so = os.path.join(logs, "T.stdout")
                exp_se = os.path.join(logs, "T.stderr")
                mode = log_mode or "full"
                if mode == "full":
                    if got["so"] != exp_so or got["se"] != exp_se:
                        problems.append(f"log directives {got['so']!r}, {got['se']!r} expected {exp_so!r}, {exp_se!r}")
                    elif got["unopenable"]:
                        pass
                    else:
                        o, e = open(exp_so, "rb").read(), open(exp_se, "rb").read()
                        if o != want_out or e != want_err:
                            problems.append(f"captured output differs: stdout {o!r} vs {want_out!r}; stderr {e!r} vs {want_err!r}")
                        lo = s.gwf(["logs", "T", "--no-pager"])
                        le = s.gwf(["logs", "T", "-e", "--no-pager"])
                        if lo.stdout.encode() != want_out + b"\n" or le.stdout.encode() != want_err + b"\n":
                            problems.append(f"`gwf logs` prints {lo.stdout!r} / {le.stdout!r}, latest run wrote {want_out!r} / {want_err!r}")
                elif mode == "merged":
                    if got["so"] != exp_so or got["se"] is not None:
                        problems.append(f"merged log mode: directives {got['so']!r}, {got['se']!r}")
                    elif got["unopenable"]:
                        pass
                    else:
                        o = open(exp_so, "rb").read()
                        if sorted(o.splitlines()) != sorted((want_out + want_err).splitlines()):
                            problems.append(f"merged log {o!r} vs {want_out + want_err!r}")
                elif mode == "none":
                    if got["so"] != "/dev/null" or os.listdir(logs):
                        problems.append(f"log mode none: directives {got['so']!r}, logs {os.listdir(logs)}")
        acc.case(key=json.dumps(case), outcome=f"{kind}/{log_mode} rc_ok={not problems}", sample=case if len(spec) > 20 else None)
        acc.extra["scripts_executed"] += 1
        if problems:
            acc.violation(sig=dict(kind="exec", backend=kind, what=problems[0].split(":")[0][:50], plain_dir=dirname == "plain"), case=case, observed=problems,
                          msg=f"{kind}/{log_mode} spec={spec!r} working dir {dirname!r}: {problems[:2]}")
    shutil.rmtree(base, ignore_errors=True)


# ---------------------------------------------------------------------------------------------- log cleaning

LOGFILES = ["A.stdout", "A.stderr", "a.b.stdout", "Old.stdout", "Old.stderr", "Old.sh", "A.stdout.bak", "Gone.stderr"]


def logs_batch(acc, batch):
    for present, targets, clean_logs, dry in batch:
        wf = W.Workflow([W.T(n, [], [n.replace(".", "_") + ".out"], spec="echo\n") for n in targets])
        conf = {"backend": "slurm"}
        if clean_logs is not None:
            conf["clean_logs"] = clean_logs
        w = W.World(wf, files={}, conf=conf, logs={f: "x" for f in present})
        with W.Session(w) as s:
            r = s.gwf(["run"] + (["-d"] if dry else []))
            after = s.snapshot()
        acc.extra["invocations"] += 1
        removed = sorted(set(present) - set(after.logs))
        effective = (clean_logs is None or clean_logs) and not dry
        allowed = {f for f in present if f.rsplit(".", 1)[0] not in targets and f.split(".")[0] not in targets} if effective else set()
        # must-delete: both logs of a target that is gone, when cleaning is on
        case = dict(kind="logs", present=present, targets=targets, clean_logs=clean_logs, dry=dry)
        problems = []
        if r.exit_code != 0:
            problems.append(f"run failed: {r.exc or r.err_summary()}")
        if not set(removed) <= allowed:
            problems.append(f"deleted {sorted(set(removed) - allowed)} which are logs of current targets or cleaning is off/dry-run")
        if effective and {"Old.stdout", "Old.stderr"} <= set(present) and not {"Old.stdout", "Old.stderr"} <= set(removed):
            problems.append("logs of a target that no longer exists were not deleted although clean_logs is on")
        acc.case(key=json.dumps(case), outcome=f"removed={len(removed)} eff={effective}", sample=case)
        if problems:
            acc.violation(sig=dict(kind="logs", what=problems[0].split(" ")[0], effective=effective), case=case, observed=dict(problems=problems, removed=removed),
                          msg=f"logs {present} targets {targets} clean_logs={clean_logs} dry={dry}: {problems}")


def run(ctx):
    import mc.checks.c10 as me

    quick = ctx.tier == "quick"
    opt_items = []
    vals = {"cores": (2, 8), "memory": ("4g", "16g"), "walltime": ("02:00:00", "10:00:00"), "queue": ("short", "long"), "account": ("projA", "projB"), "nodes": (1, 0),
            "constraint": ("c1", "c2"), "mail_type": ("END", "FAIL"), "mail_user": ("a@x", "b@y"), "qos": ("q1", "q2"), "gres": ("gpu:1", "gpu:2")}
    for kind in ("slurm", "sge", "lsf"):
        for opt in DEFAULTS[kind]:
            opt_items.append((kind, opt, *vals[opt]))
    # the same options given as bare numbers: the directive carries the number as written (each scheduler reads a bare number its own
    # way — sbatch: minutes, SGE h_rt: seconds — so reformatting one is changing it)
    numeric = {"walltime": (90, 30), "memory": (4096, 512)}
    for kind in ("slurm", "sge", "lsf"):
        for opt, (a, b) in numeric.items():
            if opt in DEFAULTS[kind] and (kind, opt) != ("sge", "memory"):  # SGE memory is documented as a string with a unit and is divided by the core count
                opt_items.append((kind, opt, a, b))
    ctx.pmap(me, "options_batch", opt_items, chunk=1)
    ctx.pmap(me, "sge_memory_batch", [(m, c) for m in ("absent", "8g", "9g", "1000m", "8G", "1000M", "2T", None) for c in ("absent", 1, 2, 4, None)], chunk=5)
    sp = specs(3 if quick else 4)
    ex_items = [(s, "plain", m) for s in sp for m in MODES]
    ex_items += [(s, d, m) for s in ("echo a > f1\necho \"q $V\" >> f2\n", "echo a > f1\nfalse\necho b > f3\n") for d in DIRNAMES for m in (MODES if not quick else MODES[::2])]
    ctx.pmap(me, "exec_batch", ex_items, chunk=4)
    log_items = []
    for k in range(len(LOGFILES) + 1):
        for present in itertools.combinations(LOGFILES, k):
            if quick and k not in (0, 1, 2, len(LOGFILES), len(LOGFILES) - 1):
                continue
            for targets in (("A",), ("A", "a.b")):
                for cl in (None, True, False):
                    for dry in (False, True):
                        log_items.append((present, targets, cl, dry))
    ctx.pmap(me, "logs_batch", log_items, chunk=8)
    ctx.rule = ("options: (backend, option, value at each of three sources); exec: (spec over the line alphabet, working-dir name, backend/log mode) — each script really executed; "
                "logs: (present log files, targets, clean_logs, dry-run)")
    ctx.bound = dict(option_items=len(opt_items), combos_per_option=64, spec_lines=len(SPEC_LINES), spec_max_lines=3 if quick else 4, specs=len(sp), dirnames=len(DIRNAMES), modes=len(MODES), log_items=len(log_items))
    ctx.assumptions = ["'every spec text' is bounded by the line alphabet (quotes, $, braces, %, heredoc, failing commands, stderr)",
                       "the scheduler is assumed to run the script with bash from some other cwd and to route stdout/stderr to the files named in the directives (Slurm: stderr joins --output when --error is absent)"]


def replay(case):
    from mc.runner import Acc

    acc = Acc()
    k = case["kind"]
    if k == "options":
        vals = {"cores": (2, 8), "memory": ("4g", "16g")}
        # re-run the whole option (64 combos) and filter
        opt = case["option"] if case["option"] != "bogus_opt" else list(DEFAULTS[case["backend"]])[0]
        v = {"cores": (2, 8), "memory": ("4g", "16g"), "walltime": ("02:00:00", "10:00:00"), "queue": ("short", "long"), "account": ("projA", "projB"), "nodes": (1, 0),
             "constraint": ("c1", "c2"), "mail_type": ("END", "FAIL"), "mail_user": ("a@x", "b@y"), "qos": ("q1", "q2"), "gres": ("gpu:1", "gpu:2")}[opt]
        acc.MAX_VIOL_PER_SIG = 1000
        given = [x for x in case["sources"] if x not in ("absent", None)] if isinstance(case["sources"], list) else []
        if given and all(isinstance(x, (int, float)) and not isinstance(x, bool) for x in given) and opt in ("walltime", "memory"):
            v = {"walltime": (90, 30), "memory": (4096, 512)}[opt]
        options_batch(acc, [(case["backend"], opt, *v)])
        return [x for x in acc.violations if x["case"]["option"] == case["option"] and json.dumps(x["case"]["sources"]) == json.dumps(case["sources"])]
    if k == "sge_memory":
        sge_memory_batch(acc, [(case["memory"], case["cores"])])
    elif k == "exec":
        exec_batch(acc, [(case["spec"], case["dirname"], (case["backend"], case["log_mode"]))])
    else:
        logs_batch(acc, [(tuple(case["present"]), tuple(case["targets"]), case["clean_logs"], case["dry"])])
    return acc.violations
