"""C14 — the worker pool server survives misbehaving clients and keeps tasks and ids intact.

E3 on Server.handle_connection with three connections on the virtual loop: healthy H [enqueue a; enqueue b(dep a); states; states],
late healthy N [enqueue c; states], misbehaving M performing <=2 (thorough 3) actions from a byte/shape-level alphabet. All interleavings
of the three clients' operations and of process exits at quiescent points, plus <= D early deliveries.
Checked at the horizon of every execution: ids pairwise distinct and answered correctly, every task_states answer equals the true
table at that instant, H and N received every answer they were owed, every accepted task (H's, N's and M's) is final and matches ref.pool.
"""
import itertools
import json

from mc import poolcheck, poolx

ID = "C14"
LEVEL = "model_checking"

# (label, ops for M, definition of M's task 3 if any)
M_ACTIONS = [
    ("garbage", [("raw", b"garbage\n")], None),
    ("empty-line", [("raw", b"\n")], None),
    ("empty-object", [("raw", b"{}\n")], None),
    ("json-list", [("raw", b"[1]\n")], None),
    ("json-string", [("raw", b'"str"\n')], None),
    ("unknown-kind", [("raw", b'{"__kind__": "nope"}\n')], None),
    ("enq-missing-field", [("enq", 3, "missing_field")], dict(deps=[], codes=(0,))),
    ("enq-extra-field", [("enq", 3, "extra_field")], dict(deps=[], codes=(0,))),
    ("enq-deps-unknown", [("enq", 3)], dict(deps=[], codes=(0,), extra_deps=(77,))),
    ("enq-deps-wrongtype", [("enq", 3, "deps_wrongtype")], dict(deps=[], codes=(0,), extra_deps=("a",))),
    ("enq-deps-int", [("enq", 3, "deps_int")], dict(deps=[], codes=(0,), extra_deps=("int",))),
    ("state-unknown-id", [("state1", 999)], None),
    ("cancel-unknown-id", [("cancel", 999)], None),
    ("cancel-string-id", [("cancel", "abc")], None),
    ("cancel-others-task", [("cancel", 0)], None),
    ("cancel-float-id", [("cancel", 0.5)], None),
    ("cancel-float-id-1", [("cancel", 1.5)], None),
    ("state-float-id", [("state1", 0.5)], None),
    ("enq-unstartable", [("enq", 3)], dict(deps=[], codes=(0,), unstartable=True)),
    ("invalid-utf8", [("raw", b"\xff\xfe\n")], None),
    ("half-line-eof", [("raw", b'{"__kind__": "get_ta'), ("eof",)], None),
    ("eof", [("eof",)], None),
    ("reset", [("reset",)], None),
    ("states-drain-fails", [("states",)], None),
    ("states-never-read", [("states",)], None),  # M asks and never reads the answer: the server's drain() for M does not return
    ("well-formed-enq", [("enq", 3)], dict(deps=[], codes=(0,))),
    ("enq-states-one-write", [("enq+states", 3)], dict(deps=[], codes=(0,))),
    # M's own task waits for H's first task and M cancels it again: H's task is none of M's business
    ("enq-on-others-then-cancel", [("enq", 3), ("cancel", 3)], dict(deps=[0], codes=(0,))),
    ("state-others-task", [("state1", 0)], None),
    ("enq-cancel-one-write", [("enq+cancel", 3)], dict(deps=[], codes=(0,))),
]


def scenario(mseq, cores=2):
    tasks = [dict(deps=[], codes=(0,)), dict(deps=[0], codes=(0,)), dict(deps=[], codes=(0,)), dict(deps=[], codes=(0,))]
    mops = []
    fail_drain = False
    block_drain = False
    start_fail = ()
    for label in mseq:
        _, ops, tdef = next(a for a in M_ACTIONS if a[0] == label)
        if tdef is not None:
            if any(o[0] in ("enq", "enq+states", "enq+cancel") and o[1] == 3 for o in mops):
                return None  # M defines at most one task of its own per scenario
            tasks[3] = dict(tdef)
            if tasks[3].pop("unstartable", False):
                start_fail = (3,)
        if label == "states-drain-fails":
            fail_drain = True
        if label == "states-never-read":
            block_drain = True
        mops += ops
    clients = [
        # two polls for short M sequences: a state change that is not announced between them (stale answers) becomes visible
        dict(name="H", ops=[("enq", 0), ("enq", 1), ("states",)] + ([("states",)] if len(mseq) == 1 and mseq[0].startswith("enq-") else []), healthy=True),
        # (M's task that waits for H's first task: M speaks once H has said everything, so that the id it names exists)
        dict(name="M", ops=mops, fail_drain=fail_drain, block_drain=block_drain, **(dict(after="H") if "enq-on-others-then-cancel" in mseq else {})),
        dict(name="N", ops=[("enq", 2), ("states",)], healthy=True, after="M"),
    ]
    return dict(cores=cores, tasks=tasks, ops=[], clients=clients, via="multi", mseq=list(mseq), **(dict(start_fail=start_fail) if start_fail else {}))


def scenarios(maxlen):
    out = []
    labels = [a[0] for a in M_ACTIONS]
    for L in range(0, maxlen + 1):
        for mseq in itertools.product(labels, repeat=L):
            sc = scenario(mseq)
            if sc is not None:
                out.append(sc)
    return out


def pool_batch(acc, batch, **kw):
    poolcheck.pool_batch(acc, batch, **kw)


def socket_batch(acc, batch):
    from mc import sockettier

    sockettier.socket_batch(acc, batch)


def run(ctx):
    import mc.checks.c14 as me

    quick = ctx.tier == "quick"
    scs = scenarios(1 if quick else 2)
    if quick:
        # length-2 sequences: every pair whose first action can kill or wedge M's handler, followed by every action
        firsts = ("garbage", "cancel-unknown-id", "enq-extra-field", "half-line-eof", "states-drain-fails")
        scs += [s for s in (scenario((a, b[0])) for a in firsts for b in M_ACTIONS if b[0] not in ("enq-on-others-then-cancel", "state-others-task", "enq-cancel-one-write")) if s is not None]
    short = [s for s in scs if len(s["mseq"]) <= 1]
    longer = [s for s in scs if len(s["mseq"]) > 1]
    ctx.pmap(me, "pool_batch", short, chunk=1, prop=ID, bound=1 if quick else 2)
    ctx.pmap(me, "pool_batch", longer, chunk=1, prop=ID, bound=0 if quick else 1)
    from mc import sockettier

    seqs = sockettier.sequences(1 if quick else 2)
    if quick:
        seqs += [(("garbage", b), "close") for b in sockettier.M_BYTES] + [((a, "states"), "reset") for a in sockettier.M_BYTES]
    ctx.pmap(me, "socket_batch", seqs, chunk=max(4, len(seqs) // 16))
    ctx.traces_validated = ctx.acc.extra["traces_validated"]
    ctx.notes.setdefault("coverage_extra", {})["real_socket_sequences"] = len(seqs)
    ctx.rule = "scenario = sequence of M actions (30-action alphabet) next to fixed H and N scripts; all interleavings of client operations and process exits; non-trivial = distinct scenario"
    ctx.bound = dict(scenarios=len(scs), m_actions=len(M_ACTIONS), m_len=1 if quick else 2, deviations="1 for |M|<=1, 0 for |M|=2" if quick else "2 for |M|<=1, 1 for |M|=2", cores=2)
    ctx.assumptions = ["connections are asyncio.StreamReader objects fed by the explorer + recording writers (real sockets: real-socket tier)", "shutdown is an administrative request, not misbehaviour"]


def replay(case):
    if case.get("kind") == "socket":
        from mc.runner import Acc

        acc = Acc()
        socket_batch(acc, [(tuple(s_), e_) for s_, e_ in case.get("prior", [])] + [(tuple(case["seq"]), case["ending"])])
        return acc.violations
    return poolcheck.replay_pool(case, ID)
