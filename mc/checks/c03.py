"""C03 — dependency graph = exactly the relation induced by shared (resolved, normalised) file paths.

E1. Two families, both on the real Graph.from_targets:
 'pair'  A produces f, B consumes f, C is unrelated: every (output spelling x input spelling) of the 8-spelling
         alphabet x per-target working dirs x file location x container shape x definition order.
 'all'   every assignment of 3 files (two directories) to {-,input,output} for each of n<=3 targets that has unique
         producers and no cycle x 8 rotating spelling assignments x every definition order (n! permutations).
 'cli'   `gwf info` JSON for the pair family (spellings incl. absolute ones through a real project directory).
Oracle: mc.ref.graph.relations over mc.ref.paths.resolve (own lexical normaliser, not os.path).
"""
import itertools
import json
import os

from mc import gwfh
from mc.ref import graph as G
from mc.ref import paths as RP

ID = "C03"
LEVEL = "exploration"

# (directory under WD, name). The first two names differ only in Unicode normal form (NFC / NFD of "xé"): on Linux they are two files
# ... and the third file has the first one's name in another directory (the same raw relative spelling from two working directories)
FILES = (("", "x\u00e9"), ("", "xe\u0301"), ("sub", "x\u00e9"))
NSPELL = 9


def spell(k, wd, twd_rel, fdir, fname):
    """k-th spelling of file WD/fdir/fname as written in a target whose working dir is WD/twd_rel.
    Returns None if that spelling does not exist for this combination."""
    base = os.path.basename(wd)
    # relative path from the target's working dir to the file
    if twd_rel == "":
        rel = (fdir + "/" if fdir else "") + fname
    elif twd_rel == "sub":
        rel = fname if fdir == "sub" else "../" + fname
    else:
        raise AssertionError
    from_wd = (fdir + "/" if fdir else "") + fname
    if k == 0:
        return rel
    if k == 1:
        return "./" + rel
    if k == 2:
        return "d/../" + rel
    if k == 3:
        return f"{wd}/{from_wd}"
    if k == 4:
        return f"{wd}/./{from_wd}"
    if k == 5:
        return f"{wd}/d/../{from_wd}"
    if k == 6:
        return f"../{base}/{from_wd}" if twd_rel == "" else f"../../{base}/{from_wd}"
    if k == 7:
        return rel.replace("/", "//", 1) if "/" in rel else ".//" + rel
    if k == 8:
        return rel + "/"  # a declared path may be written with a trailing slash (think of an output directory)
    raise AssertionError


import collections
import types

class FsPath:
    """A path object that is not a pathlib path (like os.DirEntry): only __fspath__ says what it denotes."""

    def __init__(self, p):
        self._p = p

    def __fspath__(self):
        return self._p

    def __repr__(self):
        return "<FsPath object>"

    __str__ = __repr__


SHAPES = {
    "late": lambda ps: list(ps),
    "fspath": lambda ps: [FsPath(p) for p in ps],
    "pathlib": lambda ps: [__import__("pathlib").PurePosixPath(p) for p in ps],
    "userdict": lambda ps: collections.UserDict({f"k{i}": p for i, p in enumerate(ps)}),
    "mappingproxy": lambda ps: types.MappingProxyType({f"k{i}": [p] for i, p in enumerate(ps)}),
    "str": lambda ps: ps[0] if len(ps) == 1 else list(ps),
    "list": lambda ps: list(ps),
    "dict": lambda ps: {f"k{i}": p for i, p in enumerate(ps)},
    "nested": lambda ps: [[p] for p in ps],
    "dictlist": lambda ps: {"a": list(ps), "b": []},
}


def wd_string(wd, twd_rel, relative_wd):
    """The working_dir value handed to Target: absolute, or relative to the process cwd (= wd)."""
    if relative_wd == "dotted":  # absolute but not in normal form
        return f"{wd}/sub/.." if twd_rel == "" else f"{wd}/./{twd_rel}"
    if relative_wd == "slashes":
        return f"{wd}//" if twd_rel == "" else f"{wd}//{twd_rel}/"
    if relative_wd:
        return "." if twd_rel == "" else "./" + twd_rel
    return wd if twd_rel == "" else f"{wd}/{twd_rel}"


def build_case(wd, tdefs, order):
    """tdefs: list of dict(name, twd_rel, relative_wd, ins=[(fileidx, spelling k)], outs=[...], shape).
    Returns (real targets in definition order, reference triples, universe)."""
    real, ref = {}, []
    for idx in order:
        td = tdefs[idx]
        ins = [spell(k, wd, td["twd_rel"], *FILES[f]) for f, k in td["ins"]]
        outs = [spell(k, wd, td["twd_rel"], *FILES[f]) for f, k in td["outs"]]
        sh = SHAPES[td["shape"]]
        wds = wd_string(wd, td["twd_rel"], td["relative_wd"])
        if td["shape"] == "late":
            # the paths are added to the target's own containers after it was created and asked once for its files (a workflow file that
            # builds up a target step by step)
            t_ = gwfh.mk_target(td["name"], [], [], working_dir=wds)
            t_.flattened_inputs(), t_.flattened_outputs()
            t_.inputs.extend(ins)
            t_.outputs.extend(outs)
            real[td["name"]] = t_
        else:
            real[td["name"]] = gwfh.mk_target(td["name"], sh(ins) if ins else [], sh(outs) if outs else [], working_dir=wds)
        rins = {RP.resolve(wds, p, cwd=wd) for p in ins}
        routs = {RP.resolve(wds, p, cwd=wd) for p in outs}
        # harness sanity: the reference resolves each spelling to the file it was generated for
        for (f, _k), p in zip(td["ins"] + td["outs"], ins + outs):
            want = wd + "/" + (FILES[f][0] + "/" if FILES[f][0] else "") + FILES[f][1]
            got = RP.resolve(wds, p, cwd=wd)
            assert got == want, (p, got, want)
        ref.append((td["name"], rins, routs))
    return real, ref


def observe(real, wd):
    from gwf.core import CachedFilesystem, Graph

    class AllExist(dict):  # every path exists (C04 handles missing sources); never stats the disk
        def __contains__(self, k):
            return True

        def __getitem__(self, k):
            return 1.0

    fs = CachedFilesystem(cache=AllExist())
    g = Graph.from_targets(real, fs)
    endpoints = sorted(t.name for t in g.endpoints())  # before anything indexes the defaultdicts
    return dict(
        dependencies={t.name: sorted(d.name for d in g.dependencies.get(t, ())) for t in g.targets.values()},
        dependents={t.name: sorted(d.name for d in g.dependents.get(t, ())) for t in g.targets.values()},
        provides=sorted((RP.normalize(p), t.name) for p, t in g.provides.items()),
        provides_raw=len(g.provides),
        unresolved=sorted({RP.normalize(p) for p in g.unresolved}),
        endpoints=endpoints,
    )


def expected(ref):
    rel = G.relations(ref)
    return dict(
        dependencies={n: sorted(d) for n, d in rel["dependencies"].items()},
        dependents={n: sorted(d) for n, d in rel["dependents"].items()},
        provides=sorted(rel["provides"].items()),
        provides_raw=len(rel["provides"]),
        unresolved=sorted(rel["unresolved"]),
        endpoints=sorted(rel["endpoints"]),
    )


def run_case(acc, wd, tdefs, order, sig, case):
    real, ref = build_case(wd, tdefs, order)
    exp = expected(ref)
    try:
        obs = observe(real, wd)
    except Exception as e:
        obs = dict(exception=f"{type(e).__name__}: {str(e)[:80]}".replace(wd, "<wd>"))
    ndeps = sum(len(v) for v in exp["dependencies"].values())
    acc.case(key=json.dumps(case, sort_keys=True, default=str), outcome=f"deps={ndeps} ok={obs == exp}", nontrivial=ndeps > 0, sample=case)
    if obs != exp:
        diff = [k for k in exp if obs.get(k) != exp[k]] if "exception" not in obs else ["exception"]
        acc.violation(sig=dict(sig, diff=diff[0]), case=case, expected=exp, observed=obs,
                      msg=f"{json.dumps(case, default=str)[:300]} differs in {diff}")


def _wd(symlinked=False):
    from mc.runner import worker_scratch

    if symlinked:
        # the working directory is reached through a symbolic link: resolution is lexical, so every spelling keeps the link's name
        top = os.path.join(worker_scratch("c03"), "sym")
        os.makedirs(os.path.join(top, "physical", "sub"), exist_ok=True)
        wd = os.path.join(top, "base")
        if not os.path.islink(wd):
            os.symlink("physical", wd)
        os.chdir(top)
        return wd
    wd = os.path.join(worker_scratch("c03"), "base")
    os.makedirs(os.path.join(wd, "sub"), exist_ok=True)
    os.chdir(wd)
    return wd


def pair_items():
    items = []
    for f in range(len(FILES)):
        for ko in range(NSPELL):
            for ki in range(NSPELL):
                items.append((f, ko, ki))
    return items


WDCFG = [("", False), ("sub", False), ("", True), ("sub", True), ("", "dotted"), ("sub", "dotted"), ("", "slashes")]


def pair_batch(acc, batch, symlinked=False):
    wd = _wd(symlinked)
    for f, ko, ki in batch:
        other = (f + 1) % len(FILES)
        for (awd, arel), (bwd, brel) in itertools.product([c for c in WDCFG if not (symlinked and c[1] is True)], repeat=2):
            for shape in (SHAPES if not symlinked else ("list",)):
                for order in (((0, 1, 2), (1, 0, 2), (2, 1, 0)) if not symlinked else ((0, 1, 2), (1, 0, 2))):
                    tdefs = [
                        dict(name="A", twd_rel=awd, relative_wd=arel, ins=[], outs=[(f, ko)], shape=shape),
                        dict(name="B", twd_rel=bwd, relative_wd=brel, ins=[(f, ki)], outs=[], shape=shape),
                        dict(name="C", twd_rel="", relative_wd=False, ins=[(other, 0)], outs=[], shape="list"),
                    ]
                    case = dict(kind="pair", tdefs=tdefs, order=order, symlinked=symlinked)
                    run_case(acc, wd, tdefs, order, dict(kind="pair", **(dict(symlinked=True) if symlinked else {}), ko=min(ko, 3) if ko in (3, 4, 5) else "rel", ki=min(ki, 3) if ki in (3, 4, 5) else "rel"), case)


def root_batch(acc, batch):
    """A target whose working directory is the file-system root (or resolves to it): `x` there is `/x`, whatever way the other side
    spells it. Nothing on disk is touched (every path 'exists' for the graph builder)."""
    for wd_a, sp_out, wd_b, sp_in, order in batch:
        fname = "gwf_mc_rootfile"
        outs = {"rel": fname, "dot": "./" + fname, "updown": "sub/../" + fname, "abs": "/" + fname}[sp_out]
        ins = {"abs": "/" + fname, "absdot": "/./" + fname, "up": "../" + fname, "upup": "../../" + fname, "rel": fname}[sp_in]
        real = {}
        defs = {"A": lambda: gwfh.mk_target("A", [], [outs], working_dir=wd_a), "B": lambda: gwfh.mk_target("B", [ins], ["/gwf_mc_other"], working_dir=wd_b)}
        for n in order:
            real[n] = defs[n]()
        want_in = RP.resolve(wd_b, ins, cwd="/")
        want_out = RP.resolve(wd_a, outs, cwd="/")
        connected = want_in == want_out
        case = dict(kind="root", wd_a=wd_a, out=sp_out, wd_b=wd_b, inp=sp_in, order=list(order))
        try:
            obs = observe(real, "/")
            got = dict(dep=obs["dependencies"]["B"], dependents=obs["dependents"]["A"], endpoints=obs["endpoints"])
        except Exception as e:
            got = dict(exception=f"{type(e).__name__}: {str(e)[:80]}")
        exp = dict(dep=["A"] if connected else [], dependents=["B"] if connected else [], endpoints=["B"] if connected else ["A", "B"])
        acc.case(key=json.dumps(case), outcome=f"root connected={connected}", sample=case, nontrivial=connected)
        if got != exp:
            acc.violation(sig=dict(kind="root", connected=connected), case=case, expected=exp, observed=got,
                          msg=f"A(working_dir={wd_a!r}) produces {outs!r}, B(working_dir={wd_b!r}) consumes {ins!r} ({want_out} vs {want_in}): expected {exp}, got {got}")


def tilde_batch(acc, batch):
    """`~` has no special meaning in a declared path: `~/x` in a target is the file x in a directory called `~` under its working directory."""
    home = os.path.expanduser("~")
    for sp_out, sp_in, order in batch:
        wd = "/gwfmc/wd"
        outs = {"tilde": "~/x", "dot-tilde": "./~/x", "abs": wd + "/~/x", "user": "~root/x"}[sp_out]
        ins = {"tilde": "~/x", "abs": wd + "/~/x", "home": home + "/x", "user": "~root/x", "abs-user": wd + "/~root/x"}[sp_in]
        defs = {"A": lambda: gwfh.mk_target("A", [], [outs], working_dir=wd), "B": lambda: gwfh.mk_target("B", [ins], ["/gwfmc/other"], working_dir=wd)}
        real = {n: defs[n]() for n in order}
        connected = RP.resolve(wd, ins, cwd="/") == RP.resolve(wd, outs, cwd="/")
        case = dict(kind="tilde", out=sp_out, inp=sp_in, order=list(order))
        try:
            obs = observe(real, "/")
            got = dict(dep=obs["dependencies"]["B"], endpoints=obs["endpoints"])
        except Exception as e:
            got = dict(exception=f"{type(e).__name__}: {str(e)[:80]}")
        exp = dict(dep=["A"] if connected else [], endpoints=["B"] if connected else ["A", "B"])
        acc.case(key=json.dumps(case), outcome=f"tilde connected={connected}", sample=case, nontrivial=connected)
        if got != exp:
            acc.violation(sig=dict(kind="tilde", connected=connected), case=case, expected=exp, observed=got, msg=f"A produces {outs!r}, B consumes {ins!r} (same working directory {wd}): expected {exp}, got {got}")


def root_items():
    its = []
    for wd_a in ("/", "/a/..", "/a/../", "/./"):
        for sp_out in ("rel", "dot", "updown", "abs"):
            for wd_b, sp_ins in (("/sub", ("abs", "absdot", "up")), ("/sub/deep", ("abs", "upup")), ("/", ("rel", "abs")), ("/a/..", ("rel",))):
                for sp_in in sp_ins:
                    for order in (("A", "B"), ("B", "A")):
                        its.append((wd_a, sp_out, wd_b, sp_in, order))
    return its


def all_items(n):
    roles = list(itertools.product("-io", repeat=len(FILES)))
    items = []
    for combo in itertools.product(roles, repeat=n):
        tl = [(f"T{i}", {j for j in range(3) if r[j] == "i"}, {j for j in range(3) if r[j] == "o"}) for i, r in enumerate(combo)]
        rel = G.relations(tl)
        if rel["multi"] or G.has_cycle(rel["dependencies"]):
            continue
        if not any(rel["dependencies"].values()) and n > 1:
            # keep only a thin slice of dependency-free workflows (they exercise unresolved/endpoints only)
            if sum(1 for r in combo for c in r if c != "-") > 2:
                continue
        items.append(tuple("".join(r) for r in combo))
    return items


def all_batch(acc, batch, offsets=range(NSPELL)):
    wd = _wd()
    for combo in batch:
        n = len(combo)
        for off in offsets:
            cnt = itertools.count(off)
            tdefs = []
            for i, r in enumerate(combo):
                twd = "sub" if (i + off) % 3 == 1 else ""
                tdefs.append(dict(name=f"T{i}", twd_rel=twd, relative_wd=[False, "dotted", False, True, "slashes"][(i + off) % 5],
                                  ins=[(j, next(cnt) % NSPELL) for j in range(3) if r[j] == "i"],
                                  outs=[(j, next(cnt) % NSPELL) for j in range(3) if r[j] == "o"],
                                  shape=[sh for sh in SHAPES][(i + off) % len(SHAPES)]))
            for order in itertools.permutations(range(n)):
                case = dict(kind="all", tdefs=tdefs, order=order)
                run_case(acc, wd, tdefs, order, dict(kind="all"), case)


# ------------------------------------------------------------------------------------------- cli


def cli_batch(acc, batch):
    from mc import world as W

    for f, ko, ki in batch:
        fdir, fname = FILES[f]
        for awd, bwd in (("", ""), ("sub", ""), ("", "sub")):
            PROJ = "@PROJ@"
            so = spell(ko, PROJ, awd, fdir, fname).replace("../@PROJ@/", "../@PROJBASE@/")
            si = spell(ki, PROJ, bwd, fdir, fname).replace("../@PROJ@/", "../@PROJBASE@/")
            if so is None or si is None:
                continue
            ta = W.T("A", [], [so], how="template", working_dir=PROJ if awd == "" else f"{PROJ}/{awd}")
            tb = W.T("B", [si], [], how="template", working_dir=PROJ if bwd == "" else f"{PROJ}/{bwd}")
            tc = W.T("C", [], ["unrelated"], how="target")
            for order in ((ta, tb, tc), (tb, tc, ta)):
                w = W.World(W.Workflow(list(order)), files={}, conf={"backend": "slurm"})
                with W.Session(w) as s:
                    r = s.gwf(["info"])
                    named = {}
                    for nm in ("A", "B", "[AC]"):
                        rn = s.gwf(["info", nm])
                        try:
                            named[nm] = {n: (sorted(v["dependencies"]), sorted(v["dependents"])) for n, v in json.loads(rn.stdout).items()}
                        except Exception:
                            named[nm] = f"exit={rn.exit_code} {rn.err_summary()}".replace(s.proj, "<proj>")
                    acc.extra["cli_invocations"] += 4
                    case = dict(kind="cli", f=f, ko=ko, ki=ki, awd=awd, bwd=bwd, first=order[0].name)
                    try:
                        info = json.loads(r.stdout)
                        obs = {n: (sorted(v["dependencies"]), sorted(v["dependents"])) for n, v in info.items()}
                    except Exception:
                        obs = f"exit={r.exit_code} {r.err_summary()}".replace(s.proj, "<proj>")
                exp = {"A": ([], ["B"]), "B": (["A"], []), "C": ([], [])}
                exp_named = {"A": {"A": exp["A"]}, "B": {"B": exp["B"]}, "[AC]": {"A": exp["A"], "C": exp["C"]}}
                if obs == exp and named != exp_named:
                    obs = dict(all=obs, named=named)  # `gwf info NAME` must report the same relations for the targets it shows
                acc.case(key=json.dumps(case, sort_keys=True), outcome="cli ok" if obs == exp else "cli diff", sample=case)
                if obs != exp:
                    acc.violation(sig=dict(kind="cli", ko=min(ko, 3) if ko in (3, 4, 5) else "rel", ki=min(ki, 3) if ki in (3, 4, 5) else "rel"),
                                  case=case, expected=exp, observed=obs, msg=f"`gwf info`: output spelled {so!r}, input spelled {si!r}: {obs}")


def run(ctx):
    import mc.checks.c03 as me

    quick = ctx.tier == "quick"
    ctx.pmap(me, "pair_batch", pair_items(), chunk=4)
    ctx.pmap(me, "pair_batch", pair_items(), chunk=8, symlinked=True)
    ctx.pmap(me, "root_batch", root_items(), chunk=32)
    ctx.pmap(me, "tilde_batch", [(o, i, od) for o in ("tilde", "dot-tilde", "abs", "user") for i in ("tilde", "abs", "home", "user", "abs-user") for od in (("A", "B"), ("B", "A"))], chunk=8)
    ctx.pmap(me, "all_batch", all_items(2) + all_items(3), offsets=list(range(0, NSPELL, 2)) if quick else list(range(NSPELL)))
    if not quick:
        # four targets over the three files, one spelling rotation, every definition order
        ctx.pmap(me, "all_batch", all_items(4), offsets=[1], chunk=64)
    ctx.pmap(me, "cli_batch", [it for it in pair_items() if quick is False or it[0] in (0, 2)], chunk=4)
    ctx.rule = ("pair: (file, output spelling, input spelling, both working dirs abs/relative, shape, definition order); all: (role assignment of 3 files "
                "to n<=3 targets, spelling rotation offset, definition permutation); non-trivial = the reference relation has >=1 dependency edge")
    ctx.bound = dict(spellings=NSPELL, files=3, n=3 if quick else 4, shapes=len(SHAPES), offsets=4 if quick else 8)
    ctx.assumptions = ["lexical normalisation (a working directory reached through a symbolic link keeps the link's name), no leading '//' (POSIX leaves it implementation-defined)"]


def replay(case):
    from mc.runner import Acc

    acc = Acc()
    if case["kind"] == "cli":
        cli_batch(acc, [(case["f"], case["ko"], case["ki"])])
        return [v for v in acc.violations if v["case"] == case or True]
    if case["kind"] == "tilde":
        tilde_batch(acc, [(case["out"], case["inp"], tuple(case["order"]))])
        return acc.violations
    if case["kind"] == "root":
        root_batch(acc, [(case["wd_a"], case["out"], case["wd_b"], case["inp"], tuple(case["order"]))])
        return acc.violations
    wd = _wd(bool(case.get("symlinked")))
    tdefs = [dict(td, ins=[tuple(x) for x in td["ins"]], outs=[tuple(x) for x in td["outs"]]) for td in case["tdefs"]]
    run_case(acc, wd, tdefs, tuple(case["order"]), dict(kind=case["kind"]), case)
    return acc.violations
