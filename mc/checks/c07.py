"""C07 — prerequisites reach each scheduler intact, so no job starts on unfinished inputs.

E2 BFS over histories of {run, run X, start, finish_ok, finish_fail, timeout, cancel} per backend. At every `gwf run`
the harness records, independently of the command line gwf produced, which jobs each new job *must* wait for
(reference graph: latest job of each direct dependency that was pending/running or submitted earlier in the same run).
Invariants in every reachable scheduler state, for every pending job j with recorded prerequisites P:
   * syntactic: the dependency specification the simulator's own reader parsed names exactly P, each id once,
     in the backend's documented form (Slurm afterok, SGE hold list, LSF conjunction of done());
   * semantic: `start(j)` is enabled  <=>  every p in P is DONE (Slurm, LSF) / has ended (SGE).
     (=> : never starts on unfinished or failed inputs;  <= : no extra prerequisite keeps it waiting.)
"""
import json

from mc import cliworld as CW
from mc import e2
from mc import simsched

from mc import localchecks
from mc.localchecks import expand as local_expand  # noqa: F401 (looked up by name in the workers)

ID = "C07"
LEVEL = "model_checking"


def annotate(world_before, world_after):
    """Record must_wait for every job created by the run that led from world_before to world_after."""
    _, _, rel = CW.cone_names(world_after, None)
    old = set(world_before.sim["jobs"])
    sim = world_after.sim
    created = [jid for jid in sim["order"] if jid not in old]
    for pos, jid in enumerate(created):
        j = sim["jobs"][jid]
        must = []
        for d in sorted(rel["dependencies"].get(j["name"], ())):
            # latest job of d created before j
            cand = None
            for k in sim["order"]:
                if k == jid:
                    break
                jj = sim["jobs"][k]
                if jj["user"] == "me" and jj["name"] == d:
                    cand = jj
            # judged as gwf saw it when the run began: a prerequisite that ends while gwf is still submitting was pending/running
            # for gwf, and its dependents must still wait for it (and never start if it failed)
            seen_state = world_before.sim["jobs"][cand["id"]]["state"] if cand is not None and cand["id"] in world_before.sim["jobs"] else (cand["state"] if cand is not None else None)
            if cand is not None and (seen_state in simsched.ACTIVE or cand["id"] not in world_before.sim["jobs"]):
                must.append(cand["id"])
        j["must_wait"] = must


def spec_ids(sim, j):
    """(ids named by the parsed dependency spec, well_formed?)"""
    d = j.get("deps")
    kind = sim["kind"]
    if d is None:
        return [], True
    if kind == "slurm":
        ok = d["op"] == "all" and all(typ == "afterok" for typ, _ in d["groups"][0])
        return [i for _t, ids in d["groups"][0] for i in ids], ok
    if kind == "sge":
        return list(d), True
    if kind == "lsf":
        ids, ok = [], [True]

        def walk(e):
            if e[0] == "and":
                walk(e[1]); walk(e[2])
            elif e[0] == "done":
                ids.append(e[1])
            else:
                ok[0] = False
                for i in simsched._lsf_ids(e):
                    ids.append(i)
        walk(d)
        return ids, ok[0]
    raise AssertionError


def invariants(acc, world, trace, meta):
    sim = simsched.Sim(world.sim)
    strict = meta["backend"] in ("slurm", "lsf")
    for j in sim.jobs():
        if "must_wait" not in j:
            continue
        P = j["must_wait"]
        case = dict(meta=meta, trace=trace)
        ids, wellformed = spec_ids(world.sim, j)
        if sorted(ids) != sorted(P) or not wellformed:
            acc.violation(sig=dict(what="spec", backend=meta["backend"]), case=case, expected=sorted(P), observed=dict(ids=ids, argv=j["argv"], wellformed=wellformed),
                          msg=f"[{meta['wf']}/{meta['backend']}] after {trace}: job {j['id']} ({j['name']}) must wait for {sorted(P)} but its submission says {j['argv']} (parsed ids {ids}, documented form: {wellformed})")
        if j["state"] != "PENDING":
            continue
        enabled = sim.dep_status(j) == "ready"
        states = [world.sim["jobs"][p]["state"] for p in P]
        want = all(s == "DONE" for s in states) if strict else all(s in simsched.FINAL for s in states)
        acc.case(key=None, outcome=f"{meta['backend']} pending nP={len(P)} enabled={enabled}", nontrivial=False)
        if enabled and not want:
            acc.violation(sig=dict(what="starts-early", backend=meta["backend"]), case=case, observed=dict(job=j["id"], name=j["name"], prereq_states=dict(zip(P, states)), argv=j["argv"]),
                          msg=f"[{meta['wf']}/{meta['backend']}] after {trace}: job {j['id']} ({j['name']}) may start although its prerequisites are {dict(zip(P, states))}; submitted with {j['argv']}")
        if want and not enabled:
            acc.violation(sig=dict(what="held-by-extra-prerequisite", backend=meta["backend"]), case=case, observed=dict(job=j["id"], name=j["name"], prereq_states=dict(zip(P, states)), argv=j["argv"]),
                          msg=f"[{meta['wf']}/{meta['backend']}] after {trace}: job {j['id']} ({j['name']}) cannot start although all its prerequisites {dict(zip(P, states))} are done; submitted with {j['argv']}")


def expand(acc, batch, last=False, meta=None):
    for world, trace in batch:
        acc.case(key=e2.world_key(world), outcome=None, nontrivial=True, sample=dict(meta=meta, trace=trace) if len(trace) == 4 else None)
        invariants(acc, world, trace, meta)
        if last:
            continue
        names = world.wf.names()
        acts = [("gwf", ["run"]), ("gwf", ["run", names[1]]), ("gwf", ["run", names[-1]])]
        acts += CW.enabled_env(world, kinds=("start", "finish_ok", "finish_fail", "timeout", "cancel"))
        for a in acts:
            w2, res = CW.apply_action(world, a)
            if res is not None:
                acc.extra["invocations"] += 1
                if res.exit_code != 0 or res.crashed():
                    acc.violation(sig=dict(what="run failed", backend=meta["backend"]), case=dict(meta=meta, trace=trace + [list(a)]), observed=res.as_dict(),
                                  msg=f"[{meta}] after {trace}: gwf {a[1]} failed: {res.exc or res.err_summary()}")
                    continue
                annotate(world, w2)
            w2.normalize()
            acc.out.append((e2.world_key(w2), w2, trace + [list(a)]))


def midrun_batch(acc, batch):
    """The scheduler moves while gwf is submitting: before the k-th scheduler command of a `gwf run`, one environment step (a tracked
    job starts, finishes, fails or is cancelled). The jobs the run creates must still wait for what was pending/running when it began."""
    from mc import world as W

    for wfname, backend, pre in batch:
        meta = dict(wf=wfname, backend=backend, midrun=True)
        w = CW.init_world(wfname, backend)
        for a in pre:
            a = tuple(a) if a[0] != "gwf" else ("gwf", a[1])
            w2, res = CW.apply_action(w, a)
            if res is not None:
                annotate(w, w2)
            w = w2.normalize()
        with W.Session(w) as s:
            s.gwf(["run"])
            calls = [(e["idx"], e["exe"]) for e in s.sim.s["journal"] if e["op"] == "call"]
        for idx, exe in calls:
            for ea in CW.enabled_env(w, kinds=("start", "finish_ok", "finish_fail", "cancel")):
                trace = [list(a) for a in pre] + [["gwf-run-with", list(ea), "before-call", idx, exe]]
                with W.Session(w) as s:
                    def hook(phase, i, e, argv, idx=idx, ea=ea, s=s):
                        if phase == "before" and i == idx:
                            j = CW.tracked_job(w, ea[2])
                            simsched.Sim(s.sim.s).step(ea[1], j["id"])

                    s.sim_hook = hook
                    r = s.gwf(["run"])
                    w2 = s.snapshot()
                acc.extra["invocations"] += 1
                acc.case(key=json.dumps([meta, trace]), outcome=f"midrun {ea[1]} before {exe}", sample=dict(meta=meta, trace=trace), nontrivial=True)
                if r.exit_code != 0 or r.crashed():
                    acc.violation(sig=dict(what="run failed", backend=backend, midrun=True), case=dict(meta=meta, trace=trace, pre=[list(a) for a in pre], idx=idx, ea=list(ea)), observed=r.as_dict(),
                                  msg=f"[{meta}] {trace}: gwf run failed: {r.exc or r.err_summary()}")
                    continue
                annotate(w, w2)
                a2 = type(acc)()
                invariants(a2, w2.normalize(), trace, meta)
                for v in a2.violations:
                    v["case"] = dict(meta=meta, trace=trace, pre=[list(a) for a in pre], idx=idx, ea=list(ea))
                    v["sig"]["midrun"] = True
                    acc.violations.append(v)


MIDRUN_PRE = [
    [("gwf", ["run", "A"])],
    [("gwf", ["run", "A"]), ("env", "start", "A")],
    [("gwf", ["run", "B"]), ("env", "start", "A")],
]

QUICK = [("topdown", "slurm", 6), ("topdown", "sge", 5), ("shortcut", "slurm", 6), ("shortcut", "lsf", 5), ("diamond", "slurm", 7), ("fork", "sge", 7), ("diamond", "lsf", 6), ("chain", "slurm", 7), ("diamond", "sge", 6)]
THOROUGH = [(wf, be, 9 if wf != "diamond" else 8) for wf in ("fork", "chain", "diamond", "shortcut", "topdown") for be in ("slurm", "sge", "lsf")]


def run(ctx):
    import mc.checks.c07 as me

    done = []
    for wfname, backend, depth in (QUICK if ctx.tier == "quick" else THOROUGH):
        meta = dict(wf=wfname, backend=backend)
        w0 = CW.init_world(wfname, backend)
        e2.bfs(ctx, me, "expand", [w0], depth, chunk=4, meta=meta)
        done.append(dict(meta, depth=depth))
    mid = [(wf, be, pre) for wf in (("fork", "chain") if ctx.tier == "quick" else ("fork", "chain", "diamond")) for be in ("slurm", "sge", "lsf") for pre in MIDRUN_PRE]
    ctx.pmap(me, "midrun_batch", mid, chunk=1)
    done.append(dict(midrun=len(mid)))
    local_done = localchecks.run_local(ctx, me, ID, [("diamond", 4), ("shortcut", 4)] if ctx.tier == "quick" else [("diamond", 6), ("shortcut", 6), ("fork", 6)])
    ctx.notes.setdefault("coverage_extra", {})["local_backend"] = local_done
    ctx.traces_validated = ctx.acc.extra["transitions"]
    ctx.rule = "state = canonical world incl. the scheduler's job table; every reachable state is checked for every pending job; non-trivial = distinct canonical state"
    ctx.bound = dict(configs=done, prerequisites_per_job="1..2 (diamond D has two, B/C share A; earlier-invocation prerequisites via run X then run)")
    ctx.assumptions = ["dependency semantics of Slurm (--dependency), SGE (-hold_jid) and LSF (-w) as implemented in mc/simsched.py from their documentation",
                       "local pool: C11"]


def replay(case):
    if case.get("kind") == "local":
        return localchecks.replay(case)
    from mc.runner import Acc

    meta = case["meta"]
    if meta.get("midrun"):
        acc = Acc()
        midrun_batch(acc, [(meta["wf"], meta["backend"], [tuple(a) if a[0] != "gwf" else ("gwf", a[1]) for a in case["pre"]])])
        return [v for v in acc.violations if v["case"].get("idx") == case.get("idx") and v["case"].get("ea") == case.get("ea")]
    w = CW.init_world(meta["wf"], meta["backend"])
    acc = Acc()
    for a in case["trace"]:
        a = tuple(a) if a[0] != "gwf" else ("gwf", a[1])
        w2, res = CW.apply_action(w, a)
        if res is not None:
            if res.exit_code != 0 or res.crashed():
                acc.violation(sig=dict(what="run failed", backend=meta["backend"]), case=case, observed=res.as_dict(), msg=f"[{meta}] gwf {a[1]} failed: {res.exc or res.err_summary()}")
                return acc.violations
            annotate(w, w2)
        w = w2.normalize()
    invariants(acc, w, case["trace"], meta)
    return acc.violations
