"""C04 — validation accepts exactly the well-formed workflows and names an applicable defect otherwise;
nothing is submitted/deleted/touched on an ill-formed workflow; any size/depth terminates without crashing.

E1 'sets'   all target sets: n<=3 targets over m files, each target's inputs/outputs arbitrary subsets (self loops,
            2/3-cycles, duplicate producers, missing sources and all combinations), every existence subset, every
            definition order; duplicates also across spellings.
   'rings'  k-rings (k=2..8) + tail + unrelated acyclic component at every rotation of the definition order.
   'chains' chains of length L (forward / reversed / interleaved definition) through Graph.from_targets,
            get_status_map, submit_workflow, touch_workflow, Graph.dfs and the CLI.
   'cli'    each error kind x each command: non-zero exit, 'Error:' line, no traceback, world and scheduler untouched.
"""
import itertools
import json
import os

from mc import gwfh
from mc.ref import graph as G

ID = "C04"
LEVEL = "exploration"
WD = gwfh.WD

KIND_OF = {"FileProvidedByMultipleTargetsError": "multiple", "UnresolvedInputError": "unresolved", "CircularDependencyError": "cycle"}


def set_items(n, m):
    subsets = [tuple(j for j in range(m) if mask >> j & 1) for mask in range(1 << m)]
    per_target = list(itertools.product(subsets, subsets))  # (inputs, outputs)
    return list(itertools.product(per_target, repeat=n))


SPELL = [lambda f: f, lambda f: "./" + f, lambda f: f"{WD}/{f}", lambda f: f"{WD}/d/../{f}", lambda f: "d/../" + f, lambda f: f"../{os.path.basename(WD)}/{f}", lambda f: "d//..//" + f]


# file j of the pool; the first two names differ only in Unicode normal form (two different files on Linux)
FNAME = ["f\u00e9", "fe\u0301", "f2", "f3", "f4", "f5"]


def eval_set(tset, existing, order, spell_off=0):
    from gwf.core import Graph

    n = len(tset)
    m = 1 + max([j for ins, outs in tset for j in ins + outs] + [0])
    targets = {}
    k = itertools.count(spell_off)
    for idx in order:
        ins, outs = tset[idx]
        sp = lambda j: SPELL[next(k) % len(SPELL)](FNAME[j]) if spell_off else FNAME[j]
        targets[f"T{idx}"] = gwfh.mk_target(f"T{idx}", [sp(j) for j in ins], [sp(j) for j in outs])
    universe = [f"{WD}/{FNAME[j]}" for j in range(m)]
    fs = gwfh.mk_fs({f"{WD}/{FNAME[j]}": 1.0 for j in existing}, universe)
    try:
        Graph.from_targets(targets, fs)
        return "ok"
    except Exception as e:
        return type(e).__name__


def ref_set(tset, existing):
    tl = [(f"T{i}", [f"{WD}/{FNAME[j]}" for j in ins], [f"{WD}/{FNAME[j]}" for j in outs]) for i, (ins, outs) in enumerate(tset)]
    return G.classify(tl, {f"{WD}/{FNAME[j]}" for j in existing})


def sets_batch(acc, batch, m=2, spell_offs=(0,)):
    exist_subsets = [tuple(j for j in range(m) if mask >> j & 1) for mask in range(1 << m)]
    for tset in batch:
        n = len(tset)
        for existing in exist_subsets:
            kinds = ref_set(tset, existing)
            for order in itertools.permutations(range(n)):
                for so in spell_offs:
                    obs = eval_set(tset, existing, order, so)
                    case = dict(kind="sets", tset=tset, existing=existing, order=order, spell_off=so)
                    acc.case(key=(tset, existing), outcome=f"{sorted(kinds)}->{obs}", sample=case, nontrivial=True)
                    ok = (obs == "ok") if not kinds else (KIND_OF.get(obs) in kinds)
                    if not ok:
                        acc.violation(sig=dict(kind="sets", applicable=sorted(kinds), obs=obs), case=case, expected=sorted(kinds) or "ok", observed=obs,
                                      msg=f"targets(in,out)={tset} existing={existing} order={order}: applicable={sorted(kinds) or 'none (well-formed)'} but got {obs}")


# ------------------------------------------------------------------------------------------ rings


def ring_targets(k, rot, tail=2):
    """k-ring R0<-R1<-...<-R(k-1)<-R0 (Ri consumes r(i-1), produces r(i)), a tail hanging off the ring, and an
    unrelated acyclic pair. Definition order rotated by `rot` with the acyclic component FIRST (so the first-visited
    node does not reach the cycle)."""
    defs = []
    for i in range(k):
        defs.append((f"R{i}", [f"r{(i - 1) % k}"], [f"r{i}"]))
    ring = defs[rot:] + defs[:rot]
    tails = [(f"L{j}", [f"r0" if j == 0 else f"l{j - 1}"], [f"l{j}"]) for j in range(tail)]
    free = [("U0", ["src"], ["u0"]), ("U1", ["u0"], ["u1"])]
    return free + tails + ring


def rings_batch(acc, batch):
    from gwf.core import Graph

    for k, rot, variant in batch:
        defs = ring_targets(k, rot)
        if variant == "ring_first":
            defs = defs[4:] + defs[:4]
        elif variant == "acyclic":  # control: break the ring -> must be accepted
            defs = [(n, (["src"] if n == "R0" else i), o) for n, i, o in defs]
        targets = {n: gwfh.mk_target(n, i, o) for n, i, o in defs}
        universe = {f"{WD}/{p}" for _, i, o in defs for p in i + o}
        fs = gwfh.mk_fs({f"{WD}/src": 1.0}, universe)
        try:
            Graph.from_targets(targets, fs)
            obs = "ok"
        except Exception as e:
            obs = type(e).__name__
        exp = "ok" if variant == "acyclic" else "CircularDependencyError"
        case = dict(kind="rings", k=k, rot=rot, variant=variant)
        acc.case(key=("ring", k, rot, variant), outcome=f"ring {variant}->{obs}", sample=case)
        if obs != exp:
            acc.violation(sig=dict(kind="rings", variant=variant, obs=obs), case=case, expected=exp, observed=obs, msg=f"{k}-ring rot={rot} {variant}: got {obs}")


# ------------------------------------------------------------------------------------------ chains


def chain_defs(L, order):
    if order.startswith("layers"):
        # L layers of two targets; each target consumes both outputs of the layer below (reconvergent: 2^L paths from top to bottom)
        half = max(1, L // 2)
        defs = []
        for k in range(half):
            for w in (0, 1):
                ins = ["src"] if k == 0 else [f"c{2 * (k - 1)}", f"c{2 * (k - 1) + 1}"]
                defs.append((f"C{2 * k + w}", ins, [f"c{2 * k + w}"]))
        defs = defs[:L] if L >= 2 else defs[:1]
        return defs[::-1] if order == "layers_sinks_first" else defs
    defs = [(f"C{i}", [f"c{i - 1}" if i else "src"], [f"c{i}"]) for i in range(L)]
    if order == "reversed":
        defs = defs[::-1]
    elif order == "interleaved":
        defs = defs[::2] + defs[1::2][::-1]
    return defs


def eval_chain(L, order, op):
    """op in graph/status/submit/touch/dfs; returns 'ok:<summary>' or exception class name."""
    from gwf.core import Graph, NoopSpecHashes
    from gwf.scheduling import get_status_map, submit_workflow

    defs = chain_defs(L, order)
    targets = {n: gwfh.mk_target(n, i, o, working_dir=(eval_chain.touch_dir if op == "touch" else WD)) for n, i, o in defs}
    wd = eval_chain.touch_dir if op == "touch" else WD
    universe = {f"{wd}/{p}" for _, i, o in defs for p in i + o}
    fs = gwfh.mk_fs({f"{wd}/src": 1.0}, universe)
    try:
        g = Graph.from_targets(targets, fs)
        if op == "graph":
            return f"ok:{len(g.targets)}"
        if op == "dfs":
            return f"ok:{len(g.dfs(g.targets[f'C{L - 1}']))}"
        if op == "status":
            be, ops = gwfh.open_backend(eval_chain.scratch, {})
            sm = get_status_map(g, fs, NoopSpecHashes(), be)
            return f"ok:{len(sm)}"
        if op == "submit":
            gwfh.write_tracked(eval_chain.scratch, {})
            be, ops = gwfh.open_backend(eval_chain.scratch, {})
            submit_workflow(g.endpoints(), g, fs, NoopSpecHashes(), be)
            return f"ok:{sum(1 for j in ops.journal if j[0] == 'submit')}"
        if op == "touch":
            from gwf.plugins.touch import touch_workflow

            touch_workflow(g.endpoints(), g, NoopSpecHashes())
            cnt = sum(1 for i in range(L) if os.path.exists(f"{wd}/c{i}"))
            return f"ok:{cnt}"
    except Exception as e:
        return type(e).__name__
    raise AssertionError(op)


def chains_batch(acc, batch):
    import shutil

    from mc.runner import worker_scratch

    eval_chain.scratch = worker_scratch("c04")
    for L, order, op in batch:
        eval_chain.touch_dir = os.path.join(eval_chain.scratch, f"touch_{L}_{order}")
        if op == "touch":
            os.makedirs(eval_chain.touch_dir, exist_ok=True)
        obs = eval_chain(L, order, op)
        if op == "touch":
            shutil.rmtree(eval_chain.touch_dir, ignore_errors=True)
        exp = f"ok:{len(chain_defs(L, order))}"
        if order.startswith("layers") and op == "dfs" and L >= 2:
            exp = f"ok:{L - 1}"  # from one top-layer target everything is reachable except its sibling
        case = dict(kind="chains", L=L, order=order, op=op)
        acc.case(key=("chain", L, order, op), outcome=f"chain {op} {'ok' if obs == exp else obs}", sample=case)
        if obs != exp:
            acc.violation(sig=dict(kind="chains", op=op, obs=obs), case=case, expected=exp, observed=obs,
                          msg=f"chain of {L} targets defined {order}, {op}: {obs}")


# ------------------------------------------------------------------------------------------ realfs

INPUT_KINDS = {"file": True, "dir": True, "symlink_to_file": True, "symlink_to_dir": True, "empty_file": True, "missing": False, "broken_symlink": False,
               # no file of that name can exist: a path component is a regular file / the name is a symbolic link that points at itself
               "under_a_file": False, "symlink_loop": False,
               # an ordinary file dated exactly the epoch (tar --mtime=@0, some checkouts and restores) / before it
               "epoch_file": True, "pre_epoch_file": True}


def realfs_batch(acc, batch):
    """A source input on the *real* file system in every form it can take: exists (accepted) or not (unresolved input)."""
    import shutil

    from gwf.core import CachedFilesystem, Graph
    from mc.runner import worker_scratch

    base = os.path.join(worker_scratch("c04"), "realfs")
    for kind, spelled_abs, consumers in batch:
        shutil.rmtree(base, ignore_errors=True)
        os.makedirs(os.path.join(base, "other"))
        p = os.path.join(base, "inp")
        if kind == "file":
            open(p, "w").write("x")
        elif kind == "empty_file":
            open(p, "w").close()
        elif kind == "dir":
            os.makedirs(p)
            open(os.path.join(p, "inside"), "w").write("x")
        elif kind == "symlink_to_file":
            open(os.path.join(base, "other", "real"), "w").write("x")
            os.symlink(os.path.join("other", "real"), p)
        elif kind == "symlink_to_dir":
            os.symlink("other", p)
        elif kind == "broken_symlink":
            os.symlink("nowhere", p)
        elif kind == "symlink_loop":
            os.symlink("inp", p)
        elif kind in ("epoch_file", "pre_epoch_file"):
            open(p, "w").write("x")
            os.utime(p, (0, 0) if kind == "epoch_file" else (-86400, -86400))
        elif kind == "under_a_file":
            open(os.path.join(base, "plain"), "w").write("x")
            p = os.path.join(base, "plain", "inp")
        inp = p if spelled_abs else os.path.relpath(p, base)
        targets = {f"T{i}": gwfh.mk_target(f"T{i}", [inp], [f"out{i}"], working_dir=base) for i in range(consumers)}
        try:
            Graph.from_targets(targets, CachedFilesystem())
            obs = "ok"
        except Exception as e:
            obs = type(e).__name__
        exp = "ok" if INPUT_KINDS[kind] else "UnresolvedInputError"
        case = dict(kind="realfs", input=kind, abs=spelled_abs, consumers=consumers)
        acc.case(key=json.dumps(case), outcome=f"realfs {kind}->{obs}", sample=case)
        if obs != exp:
            acc.violation(sig=dict(kind="realfs", input=kind, obs=obs), case=case, expected=exp, observed=obs,
                          msg=f"a source input that is a {kind.replace('_', ' ')} (spelled {'absolute' if spelled_abs else 'relative'}, {consumers} consumer(s)): expected {exp}, got {obs}")
    shutil.rmtree(base, ignore_errors=True)


# ------------------------------------------------------------------------------------------ cli

BAD_WORKFLOWS = {
    "multiple": [("A", [], ["x"]), ("B", [], ["x"]), ("C", ["x"], ["y"])],
    "multiple_spelled": [("A", [], ["x"]), ("B", [], ["./x"]), ("C", ["x"], ["y"])],
    "unresolved": [("A", ["nosuch"], ["x"]), ("B", ["x"], ["y"])],
    "selfloop": [("A", ["x"], ["x"]), ("B", ["src"], ["y"])],
    "cycle2": [("U", ["src"], ["u"]), ("A", ["b"], ["a"]), ("B", ["a"], ["b"])],
    "cycle3_unreachable_from_first": [("U", ["src"], ["u"]), ("V", ["u"], ["v"]), ("A", ["c"], ["a"]), ("B", ["a"], ["b"]), ("C", ["b"], ["c"]), ("D", ["a"], ["d"])],
}
COMMANDS = [["run"], ["run", "-d"], ["status"], ["clean", "-f", "--all"], ["clean", "-f"], ["touch"], ["cancel", "-f"], ["info"], ["run", "A"], ["touch", "B"]]


def cli_batch(acc, batch):
    from mc import simsched
    from mc import world as W

    for wname, cmd, backend in batch:
        defs = BAD_WORKFLOWS[wname]
        wf = W.Workflow([W.T(n, i, o, spec="echo hi") for n, i, o in defs])
        files = {"src": (1, "S"), "x": (2, "X"), "y": (3, "Y"), "a": (2, "A"), "u": (1, "U"), "unrelated": (1, "keep")}
        sim = simsched.new_state(backend)
        s0 = simsched.Sim(sim)
        # one job in flight for the first target, from an earlier (well-formed) incarnation of the project
        rc, out, _ = s0.handle({"slurm": "sbatch", "sge": "qsub", "lsf": "bsub"}[backend],
                               {"slurm": ["--parsable"], "sge": ["-terse"], "lsf": []}[backend], "#!/bin/bash\n")
        jid = [j["id"] for j in s0.jobs()][0]
        s0.clear_journal()
        w = W.World(wf, files=files, conf={"backend": backend, "use_spec_hashes": True}, tracked={backend: {defs[0][0]: jid}},
                    hashes={defs[0][0]: "0" * 40}, logs={defs[0][0] + ".stdout": "old log\n", "Renamed.stdout": "log of a target that no longer exists\n", "Renamed.stderr": "e\n"}, sim=sim)
        with W.Session(w) as s:
            before = s.snapshot()
            r = s.gwf(cmd)
            after = s.snapshot()
            journal = [e for e in s.sim.s["journal"] if e["op"] in ("submit", "cancel")]
        problems = []
        if r.exit_code == 0:
            problems.append("exit code 0")
        if r.crashed():
            problems.append(f"traceback: {r.exc}")
        elif "Error:" not in (r.stderr + r.stdout):
            problems.append("no 'Error:' line")
        if before.semantic() != after.semantic():
            problems.append("project state changed")
        if journal:
            problems.append(f"scheduler received {[(e['op'], e.get('id')) for e in journal]}")
        case = dict(kind="cli", wf=wname, cmd=cmd, backend=backend)
        acc.case(key=json.dumps(case), outcome=f"cli exit={r.exit_code} problems={len(problems)}", sample=case)
        acc.extra["cli_invocations"] += 1
        if problems:
            acc.violation(sig=dict(kind="cli", wf=wname, cmd=cmd[0], what=problems[0][:30]), case=case, observed=dict(problems=problems, result=r.as_dict()),
                          msg=f"`gwf {' '.join(cmd)}` on ill-formed workflow {wname} ({backend}): {problems}")


def run(ctx):
    import mc.checks.c04 as me

    quick = ctx.tier == "quick"
    ctx.pmap(me, "sets_batch", set_items(3, 2), m=2, spell_offs=(0, 1, 2, 3, 4, 5))
    if not quick:
        ctx.pmap(me, "sets_batch", set_items(3, 3), m=3, spell_offs=(0,))
        ctx.pmap(me, "sets_batch", set_items(4, 2), m=2, spell_offs=(0,))
    else:
        ctx.pmap(me, "sets_batch", set_items(2, 3), m=3, spell_offs=(0, 1))
    ctx.pmap(me, "rings_batch", [(k, rot, v) for k in range(2, 9) for rot in range(k) for v in ("acyclic_first", "ring_first", "acyclic")], chunk=8)
    Ls = [1, 2, 10, 100, 400, 600, 1000, 2000] + ([] if quick else [3500, 5000])
    ctx.pmap(me, "chains_batch", [(L, o, op) for L in Ls for o in ("forward", "reversed", "interleaved") for op in ("graph", "dfs", "status", "submit", "touch")], chunk=1)
    ctx.pmap(me, "chains_batch", [(L, o, op) for L in (6, 20, 40, 80) for o in ("layers_sources_first", "layers_sinks_first") for op in ("graph", "dfs", "status", "submit", "touch")], chunk=1)
    ctx.pmap(me, "realfs_batch", [(k, a, n) for k in INPUT_KINDS for a in (False, True) for n in (1, 2)], chunk=4)
    ctx.pmap(me, "cli_batch", [(w, c, b) for w in BAD_WORKFLOWS for c in COMMANDS for b in (("slurm",) if quick else ("slurm", "sge", "lsf"))], chunk=4)
    ctx.rule = ("sets: (target set with arbitrary input/output subsets, existing-file subset) — each repeated over every definition order and spelling "
                "offsets; rings/chains: parametric families; cli: (ill-formed workflow, command, backend); every case has a defined expected classification")
    ctx.bound = dict(n=3, m=2 if quick else 3, n4_m2=not quick, rings="k=2..8 all rotations", chain_max=max(Ls))
    ctx.assumptions = ["'any size' is decided only up to the largest chain length swept (stated in bound)"]


def replay(case):
    from mc.runner import Acc

    acc = Acc()
    k = case["kind"]
    if k == "sets":
        tset = tuple((tuple(i), tuple(o)) for i, o in case["tset"])
        kinds = ref_set(tset, tuple(case["existing"]))
        obs = eval_set(tset, tuple(case["existing"]), tuple(case["order"]), case["spell_off"])
        ok = (obs == "ok") if not kinds else (KIND_OF.get(obs) in kinds)
        if not ok:
            acc.violation(dict(kind="sets"), case, sorted(kinds), obs)
    elif k == "rings":
        rings_batch(acc, [(case["k"], case["rot"], case["variant"])])
    elif k == "chains":
        chains_batch(acc, [(case["L"], case["order"], case["op"])])
    elif k == "realfs":
        realfs_batch(acc, [(case["input"], case["abs"], case["consumers"])])
    elif k == "cli":
        cli_batch(acc, [(case["wf"], case["cmd"], case["backend"])])
    return acc.violations
