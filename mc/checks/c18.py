"""C18 — spec hashes are recorded exactly on accepted submission, touch and clean; staleness by spec edit only when enabled.

E2 BFS over command histories. Alphabet: run, run X, run -d, status, touch, touch X, clean --all -f, clean X, edit spec,
config set use_spec_hashes true/false (through the real `gwf config`), rename / remove a target, a run whose k-th submission the
scheduler rejects, and 'all jobs finish'. After every transition the hash file (semantic read) is compared with the reference
record map, and `gwf status` with the reference plan (which knows the hash semantics of C01).
"""
import copy
import json

from mc import cliworld as CW
from mc import e2
from mc import simsched
from mc import world as W

ID = "C18"
LEVEL = "model_checking"


def enabled(world):
    """Whether hashing is enabled *as the user last said* (`gwf config set use_spec_hashes true|false`), not as gwf happens to read
    the stored value back."""
    intent = getattr(world, "hashing_intent", None)
    if intent is not None:
        return intent
    return bool((world.conf or {}).get("use_spec_hashes"))


def drain(world):
    w = world.copy()
    sim = simsched.Sim(w.sim)
    progress = True
    while progress:
        progress = False
        for a, jid in sim.enabled():
            if a in ("start", "finish_ok"):
                sim.step(a, jid)
                if a == "finish_ok":
                    j = w.sim["jobs"][jid]
                    if j["name"] in w.wf.names():
                        clock = w.clock() + 1
                        for o in w.wf.by_name(j["name"]).flat("outputs"):
                            w.files[o] = (clock, f"{j['name']}#{jid}")
                progress = True
                break
    return w


def fail_first(world):
    """The first job that can still fail does (started if necessary): its target is then a failed target for status and run."""
    w = world.copy()
    sim = simsched.Sim(w.sim)
    for a, jid in sim.enabled():
        if a == "start":
            sim.step("start", jid)
            break
    for a, jid in sim.enabled():
        if a == "finish_fail":
            sim.step("finish_fail", jid)
            break
    return w


def actions(world):
    names = world.wf.names()
    mid = names[1] if len(names) > 1 else names[0]
    acts = [("gwf", ["run"]), ("gwf", ["run", mid]), ("gwf", ["run", "-d"]), ("gwf", ["status"]), ("gwf", ["touch"]), ("gwf", ["touch", mid]),
            ("gwf", ["clean", "--all", "-f"]), ("gwf", ["clean", names[0]]), ("gwf", ["clean", "-f"]), ("gwf", ["clean", "--all", mid]),
            ("editspec", names[0]), ("editspec", mid),
            ("gwf", ["config", "set", "use_spec_hashes", "false" if enabled(world) else "true"]),
            ("reject", 0), ("reject", 1), ("drain",), ("failone",)]
    if "B" in names:
        acts.append(("rename", "B", "B2"))
    if len(names) > 2:
        acts.append(("remove", names[-1]))
    return acts


def expected_after(world, action, session_info):
    """Reference record map after `action` (a dict; absent file == {})."""
    rec = dict(world.hashes or {}) if not isinstance(world.hashes, tuple) else {}
    if action[0] != "gwf" and action[0] != "reject":
        return rec
    args = action[1] if action[0] == "gwf" else ["run"]
    if not enabled(world) or args[0] in ("status", "config") or (args[0] == "run" and "-d" in args):
        return rec
    wf = world.wf
    if args[0] == "run":
        for name in session_info["accepted"]:
            rec[name] = W.sha1(wf.by_name(name).spec)
    elif args[0] == "touch":
        sel = [a for a in args[1:]] or None
        cone, _, _ = CW.cone_names(world, sel)
        for name in cone:
            rec[name] = W.sha1(wf.by_name(name).spec)
    elif args[0] == "clean":
        pats = [a for a in args[1:] if not a.startswith("-")]
        allf = "--all" in args
        cone, roots, rel = CW.cone_names(world, pats or None)
        matched = set(roots) if pats else set(wf.names())
        if not allf:
            matched -= rel["endpoints"]
        for name in matched:
            rec.pop(name, None)
    return rec


def do(world, action):
    """Apply an action with the real code where it is a gwf command. Returns (world2, info)."""
    info = dict(accepted=[], result=None)
    if action[0] in ("gwf", "reject"):
        w0 = world
        args = action[1] if action[0] == "gwf" else ["run"]
        if action[0] == "reject":
            w0 = world.copy()
            w0.sim["faults"] = {f"sbatch#{action[1]}": "rc1"}
        with W.Session(w0) as s:
            r = s.gwf(list(args))
            info["accepted"] = [e["name"] for e in s.sim.journal_submits()]
            info["result"] = r
            w2 = s.snapshot()
        w2.sim["faults"] = {}
        w2.hashing_intent = getattr(world, "hashing_intent", None)
        if action[0] == "gwf" and list(args[:3]) == ["config", "set", "use_spec_hashes"]:
            w2.hashing_intent = args[3] == "true"
        return w2, info
    if action[0] == "drain":
        return drain(world), info
    if action[0] == "failone":
        return fail_first(world), info
    if action[0] == "rename":
        w2 = world.copy()
        wf = copy.deepcopy(w2.wf)
        if action[1] in wf.names():
            wf.by_name(action[1]).name = action[2]
        w2.wf = wf
        return w2, info
    if action[0] == "remove":
        w2 = world.copy()
        wf = copy.deepcopy(w2.wf)
        wf.targets = [t for t in wf.targets if t.name != action[1]]
        w2.wf = wf
        return w2, info
    return CW.apply_action(world, action)[0], info


def check_transition(acc, world, action, w2, info, trace, meta):
    case = dict(meta=meta, trace=trace + [list(action)])
    r = info["result"]

    def viol(what, observed, **sig):
        acc.violation(sig=dict(what=what, action=action[0] if action[0] != "gwf" else action[1][0], enabled=enabled(world), **sig), case=case, observed=observed,
                      msg=f"[{meta['wf']}] hashing={'on' if enabled(world) else 'off'} after {trace} then {list(action)}: {what}: {json.dumps(observed, default=str)[:400]}")

    if r is not None:
        acc.extra["invocations"] += 1
        if r.crashed():
            viol("command crashed", r.as_dict())
            return False
        if r.exit_code != 0 and action[0] != "reject":
            viol("command failed", r.as_dict())
            return False
    exp = expected_after(world, action, info)
    got = w2.hashes or {}
    if got != exp:
        viol("hash records differ from the reference", dict(expected=exp, got=got, before=world.hashes, accepted=info["accepted"]))
    # staleness as shown by status
    with W.Session(w2) as s:
        rs = s.gwf(["status"])
        acc.extra["invocations"] += 1
    if rs.exit_code != 0:
        viol("status failed", rs.as_dict())
        return False
    rows = W.parse_status(rs.stdout)
    w2ref = w2.copy()
    w2ref.hashes = exp  # judge staleness against what the records *should* be
    w2ref.conf = dict(w2ref.conf or {}, use_spec_hashes=enabled(w2))  # ... and against what the user switched on or off
    pl = CW.ref_plan(w2ref)
    if rows != pl["status"]:
        viol("status differs from the reference plan", dict(rows=rows, expected=pl["status"], records=got))
    acc.case(key=None, outcome=f"{action[0] if action[0] != 'gwf' else action[1][0]} on={enabled(world)} nrec={len(got)}", nontrivial=False)
    return True


def expand(acc, batch, last=False, meta=None):
    for world, trace in batch:
        acc.case(key=e2.world_key(world), outcome=None, nontrivial=True, sample=dict(meta=meta, trace=trace) if len(trace) == 3 else None)
        if last:
            continue
        for a in actions(world):
            w2, info = do(world, a)
            ok = check_transition(acc, world, a, w2, info, trace, meta)
            if not ok:
                continue
            w2.normalize()
            acc.out.append((e2.world_key(w2), w2, trace + [list(a)]))


# ------------------------------------------------------------------------------------------- every edit is an edit
# Spec texts that differ only in white space, blank lines, line endings or case: each is a different script (indentation of a
# here-document terminator, a trailing backslash-newline, ... change what runs).
SPEC_VARIANTS = ["echo A\n", "echo A", "echo A\n\n", "\necho A\n", "  echo A\n", "\techo A\n", "echo  A\n", "echo A \n", "echo A\r\n", "echo a\n",
                 "echo A\necho A\n", "cat <<E\n x\nE\n", "cat <<E\n x\n E\nE\n", "  cat <<E\n   x\n  E\n", ""]


def distinct_batch(acc, batch):
    """Record the hash of spec i (real `gwf touch`), edit the workflow file to spec j, look at `gwf status` and `gwf run`.
    'Differs' is judged on the spec text as gwf itself holds it (`gwf info`), never through a hash function."""
    for i, j in batch:
        def world(spec):
            wf = W.Workflow([W.T("A", ["src"], ["a"], spec=spec), W.T("B", ["a"], ["b"], spec="echo B\n"), W.T("U", ["src"], ["u"], spec="echo U\n")])
            return W.World(wf, files={"src": (1, "s"), "a": (2, "a"), "b": (3, "b"), "u": (2, "u")}, conf={"backend": "slurm", "use_spec_hashes": True})

        w0 = world(SPEC_VARIANTS[i])
        with W.Session(w0) as s:
            r0 = s.gwf(["touch"])
            held_i = json.loads(s.gwf(["info", "A"]).stdout)["A"]["spec"]
            w1 = s.snapshot()
        w1.wf = world(SPEC_VARIANTS[j]).wf
        with W.Session(w1) as s:
            held_j = json.loads(s.gwf(["info", "A"]).stdout)["A"]["spec"]
            rs = s.gwf(["status"])
            rows = W.parse_status(rs.stdout)
            rr = s.gwf(["run"])
            subs = sorted(e["name"] for e in s.sim.journal_submits())
        acc.extra["invocations"] += 6
        differs = held_i != held_j
        exp_rows = {"A": "shouldrun", "B": "shouldrun", "U": "completed"} if differs else {"A": "completed", "B": "completed", "U": "completed"}
        exp_subs = ["A", "B"] if differs else []
        case = dict(kind="distinct", i=i, j=j, recorded=SPEC_VARIANTS[i], edited=SPEC_VARIANTS[j])
        acc.case(key=json.dumps(case), outcome=f"differs={differs}", sample=case, nontrivial=True)
        if r0.exit_code != 0 or rs.exit_code != 0 or rr.exit_code != 0 or rows != exp_rows or subs != exp_subs:
            acc.violation(sig=dict(kind="distinct", what="edit not seen" if differs else "unedited spec seen as edited"), case=case, expected=dict(rows=exp_rows, submitted=exp_subs),
                          observed=dict(rows=rows, submitted=subs, exits=[r0.exit_code, rs.exit_code, rr.exit_code]),
                          msg=f"hash recorded for spec {SPEC_VARIANTS[i]!r}, workflow edited to {SPEC_VARIANTS[j]!r} ({'different' if differs else 'same'} text): status {rows}, run submitted {subs}; expected {exp_rows}, {exp_subs}")


def inits(wfname):
    a = CW.init_world(wfname, "slurm", hashing=True, fresh=False)   # enabled, no hash file yet
    b = CW.init_world(wfname, "slurm", hashing=True, fresh=True)    # enabled, records for all, everything complete
    c = CW.init_world(wfname, "slurm", hashing=False, fresh=True)   # disabled (default)
    return [a, b, c]


def run(ctx):
    import mc.checks.c18 as me

    quick = ctx.tier == "quick"
    done = []
    for wfname, depth in ((("fork", 3), ("chain", 2), ("forkp", 2)) if quick else (("fork", 5), ("chain", 5), ("diamond", 3), ("forkp", 4))):
        meta = dict(wf=wfname)
        e2.bfs(ctx, me, "expand", inits(wfname), depth, chunk=2, meta=meta)
        done.append(dict(meta, depth=depth))
    nv = len(SPEC_VARIANTS)
    ctx.pmap(me, "distinct_batch", [(i, j) for i in range(nv) for j in range(nv)], chunk=8)
    ctx.traces_validated = ctx.acc.extra["transitions"]
    ctx.rule = "state = canonical world incl. hash records and configuration; every transition of the 19-action alphabet is executed with the real CLI and checked"
    ctx.bound = dict(configs=done, alphabet=19, spec_variants=nv, spec_pairs=nv * nv)
    ctx.assumptions = ["Slurm simulator; a rejected submission = sbatch exiting non-zero without creating a job"]


def replay(case):
    from mc.runner import Acc

    acc = Acc()
    if case.get("kind") == "distinct":
        distinct_batch(acc, [(case["i"], case["j"])])
        return acc.violations
    meta = case["meta"]
    # the initial world is identified by replaying from each of the three initial worlds; traces are short
    for w in inits(meta["wf"]):
        a2 = Acc()
        ok = True
        tr = []
        for a in case["trace"]:
            a = tuple(a) if a[0] != "gwf" else ("gwf", a[1])
            if a not in [tuple(x) if x[0] != "gwf" else ("gwf", x[1]) for x in actions(w)]:
                ok = False
                break
            w2, info = do(w, a)
            check_transition(a2, w, a, w2, info, tr, meta)
            tr.append(list(a))
            w = w2.normalize()
        if ok and a2.violations:
            return a2.violations
    return acc.violations
