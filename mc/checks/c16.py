"""C16 — touch makes the selected cone look completed without changing file contents.

E1: 'cli'   workflows x every initial file state over {missing, rank 1..r} x selections x hashing off/on, through the real
            `gwf touch`; utime/create events are journaled (audit hook) and re-stamped in order because the kernel clock is
            too coarse to order them; then `gwf status` with a scheduler that knows no jobs.
    'order' function level: touch_workflow on real files with **every iteration order** of each dependency set and of the
            endpoint set (these are address-ordered `set`s of Target objects in production).
"""
import itertools
import json
import os

from mc import cliworld as CW
from mc import gwfh
from mc import world as W
from mc.ref import graph as G

ID = "C16"
LEVEL = "exploration"


def wf_defs():
    return {
        "fork": [("A", ["src"], ["a"]), ("B", ["a"], ["b"]), ("C", ["a"], ["c1", "c2"])],
        "chain": [("A", ["src"], ["a"]), ("B", ["a"], ["b"]), ("C", ["b"], ["c"])],
        "diamond": [("A", ["src"], {"o": "a"}), ("B", ["a"], ["b"]), ("C", ["a", "src2"], ["c"]), ("D", [["b"], ["c"]], ["d"]), ("E", ["a"], [])],
        "twocomp": [("A", ["src"], ["a"]), ("B", ["a"], ["b"]), ("X", ["src2"], ["x"])],
        # outputs in sub-directories: a missing output whose directory is missing too (e.g. a deleted results directory)
        "subdirs": [("A", ["src"], ["out/a"]), ("B", ["out/a"], ["out/deep/b"]), ("C", ["out/deep/b"], ["c"])],
        # X depends on B and C, and B depends on C (a shortcut edge): a traversal that is not strictly dependencies-first shows here
        "shortcut": [("C", ["src"], ["c"]), ("B", ["c"], ["b"]), ("X", ["b", "c"], ["x"])],
        "shortcut2": [("Index", ["src"], ["index"]), ("Align", ["src", "index"], ["aligned"]), ("Report", ["aligned", "index"], ["report"]), ("Zlast", ["report", "index"], ["z"])],
    }


def selections(names):
    # (a pattern that uses only a character class: no `*` or `?` in it)
    return [None, [names[0]], [names[1]], [names[-1]], [names[1], names[-1]], ["Zz*"], ["[" + names[1][0] + "Q]" + names[1][1:]]]


def check_after(before_files, after, wf, sel, hashing, before_hashes):
    """Returns list of problems."""
    import fnmatch

    problems = []
    names = wf.names()
    tl = [(t.name, set(t.flat("inputs")), set(t.flat("outputs"))) for t in wf.targets]
    rel = G.relations(tl)
    roots = rel["endpoints"] if sel is None else {n for p in sel for n in names if fnmatch.fnmatchcase(n, p)}
    cone = G.cone(rel["dependencies"], roots)
    cone_outputs = {o for t in wf.targets if t.name in cone for o in t.flat("outputs")}
    af = after.files
    for p, (r, c) in before_files.items():
        if p not in af:
            problems.append(f"file {p} disappeared")
        elif af[p][1] != c:
            problems.append(f"content of {p} changed")
        elif p not in cone_outputs and af[p][0] != r:
            problems.append(f"{p} outside the cone was re-stamped")
    for p in af:
        if p not in before_files:
            if p not in cone_outputs:
                problems.append(f"{p} outside the cone was created")
            elif af[p][1] != "":
                problems.append(f"created file {p} is not empty")
    for o in cone_outputs:
        if o not in af:
            problems.append(f"cone output {o} missing after touch")
    exp_hashes = dict(before_hashes or {})
    if hashing:
        for n in cone:
            exp_hashes[n] = W.sha1(wf.by_name(n).spec)
    if (after.hashes or {}) != exp_hashes:
        problems.append(f"hash records {sorted(after.hashes or {})} expected {sorted(exp_hashes)}")
    return problems, cone


def cli_batch(acc, batch, ranks=2, only=None):
    for wname, hashing in batch:
        defs = wf_defs()[wname]
        wf = W.Workflow([W.T(n, i, o, spec=f"echo {n}\n") for n, i, o in defs])
        srcs = CW.sources(wf)
        outs = sorted({o for t in wf.targets for o in t.flat("outputs")})
        with_outputs = {t.name for t in wf.targets if t.flat("outputs")}
        for state in itertools.product([None] + list(range(1, ranks + 1)), repeat=len(outs)):
            files = {s: (2, "src:" + s) for s in srcs}
            files.update({o: (r, "old:" + o) for o, r in zip(outs, state) if r is not None})
            conf = {"backend": "slurm"}
            hashes = None
            if hashing:
                conf["use_spec_hashes"] = True
                hashes = {wf.names()[0]: "0" * 40, "Gone": "1" * 40}
                if hashing == "stale-first":
                    # only the first target's record is out of date; every other target already has the right one
                    hashes.update({n: W.sha1(f"echo {n}\n") for n in wf.names()[1:]})
            w0 = W.World(wf, files=files, conf=conf, hashes=hashes, logs={"A.stdout": "x"})
            for sel in selections(wf.names()):
                if only is not None and (list(state), sel) != only:
                    continue
                with W.Session(w0) as s:
                    r = s.gwf(["touch"] + (sel or []))
                    after = s.snapshot()
                    rs = s.gwf(["status"])
                    journal = [e for e in s.sim.s["journal"] if e["op"] in ("submit", "cancel")]
                acc.extra["invocations"] += 2
                case = dict(kind="cli", wf=wname, hashing=hashing, state=state, sel=sel)
                problems, cone = check_after(files, after, wf, sel, hashing, hashes)
                if r.exit_code != 0 or r.crashed():
                    problems.insert(0, f"touch failed: {r.exc or r.err_summary()}")
                rows = W.parse_status(rs.stdout) if rs.exit_code == 0 else {}
                notdone = sorted(n for n in cone & with_outputs if rows.get(n) != "completed")
                if notdone:
                    problems.append(f"after touch, status shows {[(n, rows.get(n)) for n in notdone]} (files {after.canon_files()})")
                if journal or after.logs != w0.logs:
                    problems.append("scheduler contacted or logs changed")
                acc.case(key=json.dumps(case, sort_keys=True), outcome=f"cone={len(cone)} problems={len(problems)}", sample=case)
                if problems:
                    acc.violation(sig=dict(kind="cli", what=problems[0].split(" ")[0] + " " + problems[0].split(" ")[1]), case=case, observed=problems,
                                  msg=f"`gwf touch {' '.join(sel or [])}` on {wname} hashing={hashing} files={dict(zip(outs, state))}: {problems[:3]}")


def symlink_batch(acc, batch):
    """Declared outputs that exist as symbolic links (a 'current -> run1' habit): to a file that is out of date, to a fresh file, or
    to nothing. gwf judges a path by the file behind it, so after touch that file must be fresh (created if need be), its content
    unchanged, and nothing else in the project may change."""
    for which, kind, sel, hashing in batch:
        wf = W.Workflow([W.T("A", ["src"], ["a"], spec="echo A\n"), W.T("B", ["a"], ["b"], spec="echo B\n"), W.T("C", ["b"], ["c"], spec="echo C\n")])
        files = {"src": (3, "src"), "a": (4, "old:a"), "b": (5, "old:b"), "c": (6, "old:c"), "store/keep": (1, "keep")}
        link_rank = 7  # the link itself is the newest thing around: only the file behind it counts
        if kind == "stale":
            files["store/real"] = (2, "real content")  # older than src
        elif kind == "fresh":
            files["store/real"] = ({"a": 4, "b": 5, "c": 6}[which], "real content")
        files[which] = (link_rank, ("symlink", "store/real"))
        conf = {"backend": "slurm"}
        if hashing:
            conf["use_spec_hashes"] = True
        w0 = W.World(wf, files=files, conf=conf)
        with W.Session(w0) as s:
            r = s.gwf(["touch"] + sel)
            after = s.snapshot()
            rs = s.gwf(["status"])
        acc.extra["invocations"] += 2
        case = dict(kind="symlink", which=which, link=kind, sel=sel, hashing=hashing)
        rows = W.parse_status(rs.stdout) if rs.exit_code == 0 else {}
        problems = []
        if r.exit_code != 0 or r.crashed():
            problems.append(f"touch failed: {r.exc or r.err_summary()}")
        cone = {"A"} if sel == ["A"] else {"A", "B"} if sel == ["B"] else {"A", "B", "C"}
        notdone = sorted(n for n in cone if rows.get(n) != "completed")
        if notdone:
            problems.append(f"after touch, status shows {[(n, rows.get(n)) for n in notdone]}")
        for p_, (rk, c) in files.items():
            if p_ not in after.files:
                problems.append(f"{p_} disappeared")
            elif after.files[p_][1] != c:
                problems.append(f"content of {p_} changed: {after.files[p_][1]!r}")
        extra = sorted(set(after.files) - set(files) - ({"store/real"} if kind == "dangling" else set()))
        if extra:
            problems.append(f"files created outside the cone: {extra}")
        if kind == "dangling" and {"a": "A", "b": "B", "c": "C"}[which] in cone and after.files.get("store/real", (0, None))[1] != "":
            problems.append("the file behind the dangling link was not created empty")
        acc.case(key=json.dumps(case, sort_keys=True), outcome=f"symlink {kind} problems={len(problems)}", sample=case)
        if problems:
            acc.violation(sig=dict(kind="symlink", link=kind, what=problems[0].split(" ")[0] + " " + problems[0].split(" ")[1]), case=case, observed=problems,
                          msg=f"`gwf touch {' '.join(sel)}` with output {which} being a symbolic link to a {kind} file, hashing={hashing}: {problems[:3]}")


def dir_batch(acc, batch):
    """A declared output that is an existing directory (a tool that writes a directory of results): touch must get through the whole cone
    and leave the directory's content alone."""
    for sel, hashing in batch:
        wf = W.Workflow([W.T("A", ["src"], ["outdir"], spec="echo A\n"), W.T("B", ["outdir"], ["b"], spec="echo B\n"), W.T("C", ["b"], ["c"], spec="echo C\n")])
        files = {"src": (3, "src"), "outdir/part1": (1, "result 1"), "outdir/part2": (1, "result 2"), "b": (2, "old:b")}
        conf = {"backend": "slurm"}
        if hashing:
            conf["use_spec_hashes"] = True
        w0 = W.World(wf, files=files, conf=conf)
        with W.Session(w0) as s:
            t1 = W.rank_ns(1)
            os.utime(os.path.join(s.proj, "outdir"), ns=(t1, t1))  # the directory itself is older than src
            r = s.gwf(["touch"] + sel)
            after = s.snapshot()
            rs = s.gwf(["status"])
            isdir = os.path.isdir(os.path.join(s.proj, "outdir"))
        acc.extra["invocations"] += 2
        case = dict(kind="dir", sel=sel, hashing=hashing)
        rows = W.parse_status(rs.stdout) if rs.exit_code == 0 else {}
        cone = {"A"} if sel == ["A"] else {"A", "B"} if sel == ["B"] else {"A", "B", "C"}
        problems = []
        if r.exit_code != 0 or r.crashed():
            problems.append(f"touch failed: {r.exc or r.err_summary()}")
        notdone = sorted(n for n in cone if rows.get(n) != "completed")
        if notdone:
            problems.append(f"after touch, status shows {[(n, rows.get(n)) for n in notdone]}")
        if not isdir:
            problems.append("the output directory is no longer a directory")
        for p_ in ("outdir/part1", "outdir/part2", "src", "b"):
            if p_ not in after.files or after.files[p_][1] != files[p_][1]:
                problems.append(f"{p_} disappeared or its content changed")
        acc.case(key=json.dumps(case, sort_keys=True), outcome=f"dir problems={len(problems)}", sample=case)
        if problems:
            acc.violation(sig=dict(kind="dir", what=problems[0].split(" ")[0] + " " + problems[0].split(" ")[1]), case=case, observed=problems,
                          msg=f"`gwf touch {' '.join(sel)}` with a directory as declared output of A, hashing={hashing}: {problems[:3]}")


def order_batch(acc, batch):
    """touch_workflow with every iteration order of dependency sets and endpoint set."""
    import shutil

    from gwf.core import CachedFilesystem, Graph, NoopSpecHashes
    from gwf.plugins.touch import touch_workflow
    from gwf.scheduling import get_status_map
    from mc.runner import worker_scratch

    W._install_audit()
    base = os.path.join(worker_scratch("c16"), "order")
    for wname, state in batch:
        defs = wf_defs()[wname]
        names = [d[0] for d in defs]
        wfm = W.Workflow([W.T(n, i, o) for n, i, o in defs])
        outs = sorted({o for t in wfm.targets for o in t.flat("outputs")})
        srcs = CW.sources(wfm)
        # permutations: endpoints order x per-node dependency order
        tl = [(t.name, set(t.flat("inputs")), set(t.flat("outputs"))) for t in wfm.targets]
        rel = G.relations(tl)
        ep = sorted(rel["endpoints"])
        multi = [n for n in names if len(rel["dependencies"][n]) > 1]
        dep_orders = [list(itertools.permutations(sorted(rel["dependencies"][n]))) for n in multi]
        for ep_order in itertools.permutations(ep):
            for combo in itertools.product(*dep_orders):
                shutil.rmtree(base, ignore_errors=True)
                os.makedirs(base)
                files = {s: 2 for s in srcs}
                files.update({o: r for o, r in zip(outs, state) if r is not None})
                for p, r in files.items():
                    full = os.path.join(base, p)
                    open(full, "w").write("old:" + p)
                    t = W.rank_ns(r)
                    os.utime(full, ns=(t, t))
                targets = {n: gwfh.mk_target(n, i, o, working_dir=base) for n, i, o in defs}
                g = Graph.from_targets(targets, CachedFilesystem())
                for n, order in zip(multi, combo):
                    g.dependencies[targets[n]] = [targets[d] for d in order]  # fixed iteration order
                W._AUDIT["events"] = []
                W._AUDIT["on"] = True
                try:
                    touch_workflow([targets[n] for n in ep_order], g, NoopSpecHashes())
                finally:
                    W._AUDIT["on"] = False
                # re-stamp in journal order
                last = {}
                for k, (ev, path) in enumerate(W._AUDIT["events"]):
                    last[os.path.realpath(os.fspath(path))] = k
                clock = 10
                for pth, _k in sorted(last.items(), key=lambda kv: kv[1]):
                    if os.path.isfile(pth) and pth.startswith(os.path.realpath(base)):
                        clock += 1
                        t = W.rank_ns(clock)
                        os.utime(pth, ns=(t, t))
                be, _ops = gwfh.open_backend(worker_scratch("c16"), {})
                for n, order in zip(multi, combo):
                    g.dependencies[targets[n]] = set(g.dependencies[targets[n]])
                sm = get_status_map(g, CachedFilesystem(), NoopSpecHashes(), be)
                rows = {t.name: gwfh.status_word(s) for t, s in sm.items()}
                notdone = sorted(n for n in names if dict((d[0], d[2]) for d in defs)[n] and rows.get(n) != "completed")
                bad_content = sorted(p for p in files if open(os.path.join(base, p)).read() != "old:" + p)
                case = dict(kind="order", wf=wname, state=state, ep_order=ep_order, dep_orders=combo)
                acc.case(key=json.dumps(case, sort_keys=True, default=str), outcome=f"order ok={not notdone}", sample=case)
                if notdone or bad_content:
                    acc.violation(sig=dict(kind="order", wf=wname), case=case, observed=dict(rows=rows, content_changed=bad_content),
                                  msg=f"touch_workflow on {wname} state={dict(zip(outs, state))} endpoint order {ep_order} dependency orders {combo}: not completed {notdone}, content changed {bad_content}")
        shutil.rmtree(base, ignore_errors=True)


def run(ctx):
    import mc.checks.c16 as me

    quick = ctx.tier == "quick"
    ctx.pmap(me, "cli_batch", [(w, h) for w in wf_defs() for h in (False, True)] + [(w, "stale-first") for w in ("chain", "fork", "shortcut")], chunk=1, ranks=2 if quick else 3)
    if not quick:
        # four distinct ages per output for the workflows with three outputs (every order of three files plus 'older than all')
        ctx.pmap(me, "cli_batch", [(w, h) for w in ("chain", "shortcut", "subdirs") for h in (False, True)], chunk=1, ranks=4)
    oitems = []
    for wname in ("diamond", "fork", "twocomp", "shortcut", "shortcut2"):
        defs = wf_defs()[wname]
        nouts = len({o for n, i, o_ in defs for o in W.T(n, [], o_).flat("outputs")})
        for state in itertools.product([None, 1, 3], repeat=nouts):
            oitems.append((wname, state))
    ctx.pmap(me, "dir_batch", [(sel, h) for sel in ([], ["A"], ["B"], ["C"]) for h in (False, True)], chunk=2)
    ctx.pmap(me, "symlink_batch", [(wh, k, sel, h) for wh in ("a", "b", "c") for k in ("stale", "fresh", "dangling") for sel in ([], ["A"], ["B"], ["C"]) for h in (False, True)], chunk=4)
    ctx.pmap(me, "order_batch", oitems if not quick else oitems[::3], chunk=4)
    ctx.rule = "cli: (workflow, file state over {missing,1..r}^outputs, selection, hashing); order: (workflow, file state, endpoint order, per-node dependency order)"
    ctx.bound = dict(workflows=list(wf_defs()), ranks=2 if quick else 3, selections=7, order_items=len(oitems) if not quick else len(oitems[::3]))
    ctx.assumptions = ["touch order is taken from the audit-hook journal of os.utime/open events and re-stamped with distinct virtual ticks (kernel mtime granularity hides the order otherwise)",
                       "sources are not dated in the future"]


def replay(case):
    from mc.runner import Acc

    acc = Acc()
    if case["kind"] == "cli":
        cli_batch(acc, [(case["wf"], case["hashing"])], ranks=3, only=(list(case["state"]), case["sel"]))
        return acc.violations
    if case["kind"] == "dir":
        dir_batch(acc, [(case["sel"], case["hashing"])])
        return acc.violations
    if case["kind"] == "symlink":
        symlink_batch(acc, [(case["which"], case["link"], case["sel"], case["hashing"])])
        return acc.violations
    order_batch(acc, [(case["wf"], tuple(case["state"]))])
    return [v for v in acc.violations if list(v["case"]["ep_order"]) == list(case["ep_order"])][:1]
