"""C08 — a target's reported state is the scheduler's state of its own latest job.

 (a) 'codes'  every documented state code of each scheduler as the state of the tracked job x file state, with other
              users' jobs and prefix-related ids in the queue.
 (b) 'matrix' Slurm: (squeue code | absent) x (sacct state | absent) x accounting on/off; sacct never invoked when off.
 (c) 'many'   1, 1023, 1024, 1025, 2049 tracked jobs with per-job distinct states: every row compared.
 (d) 'hist'   E2 BFS over histories {run, run X, scheduler transitions, queue-forget, lagging accounting}: in every state
              status row(t) = class(scheduler's visible state of the job accepted at t's last submission) else file-based,
              and the tracked file names exactly those jobs (round trip through separate invocations).
"""
import json

from mc import cliworld as CW
from mc import e2
from mc import simsched
from mc import world as W
from mc.ref import sched as RS

from mc import localchecks
from mc.localchecks import expand as local_expand  # noqa: F401 (looked up by name in the workers)

ID = "C08"
LEVEL = "model_checking"


def mkjob(jid, name, state="RUNNING", code=None, acct_code=None, in_queue=True, user="me", acct_hidden=False):
    return dict(id=jid, name=name, state=state, prev=state, deps=None, user=user, in_queue=in_queue, script="", argv=[], code=code,
                acct_code=acct_code, acct_lag=False, acct_hidden=acct_hidden)


def code_world(backend, fresh, accounting=True, **jobkw):
    wf = W.Workflow([W.T("T", ["src"], ["t"], spec="echo T\n"), W.T("U", ["src"], ["u"], spec="echo U\n")])
    files = {"src": (1, "s")}
    if fresh:
        files["t"] = (2, "t")
    sim = simsched.new_state(backend, accounting=accounting)
    # T's job is "11"; U's pending job "1" is a prefix of it; "111" is an older, superseded failed job of T
    for j in (mkjob("111", "T", state="FAILED", in_queue=False), mkjob("1", "U", state="PENDING"), mkjob("11", "T", **jobkw)):
        sim["jobs"][j["id"]] = j
        sim["order"].append(j["id"])
    sim["next"] = 3
    conf = {"backend": backend}
    if backend == "slurm" and not accounting:
        conf["backend.slurm.accounting_enabled"] = False
    return W.World(wf, files=files, conf=conf, tracked={backend: {"T": "11", "U": "1"}}, sim=sim)


def status_rows(world):
    with W.Session(world) as s:
        r = s.gwf(["status"])
        journal = [e for e in s.sim.s["journal"] if e["op"] == "call"]
    if r.exit_code != 0 or r.crashed():
        return None, r, journal
    return W.parse_status(r.stdout), r, journal


def codes_batch(acc, batch):
    for backend, code in batch:
        table = {"slurm": RS.SLURM_SQUEUE, "lsf": RS.LSF, "sge": RS.SGE}[backend]
        for fresh in (True, False):
            fb = "completed" if fresh else "shouldrun"
            st = "PENDING" if table[code] == {"submitted"} else "RUNNING"
            w = code_world(backend, fresh, code=code, state=st, acct_hidden=True)
            rows, r, _ = status_rows(w)
            allowed = RS.allowed(table, code, fb)
            case = dict(kind="codes", backend=backend, code=code, fresh=fresh)
            got = rows.get("T") if rows else f"crash:{r.exc or r.err_summary()}"
            acc.case(key=json.dumps(case), outcome=f"{backend}:{got}", sample=case)
            acc.extra["invocations"] += 1
            if got not in allowed or (rows and rows.get("U") != "submitted"):
                acc.violation(sig=dict(kind="codes", backend=backend, code=code), case=case, expected=sorted(allowed), observed=dict(T=got, U=rows and rows.get("U")),
                              msg=f"{backend} job in documented state {code!r} (files {'fresh' if fresh else 'stale'}): shown {got!r}, allowed {sorted(allowed)}; U (pending job '1') shown {rows and rows.get('U')!r}")


def matrix_batch(acc, batch):
    for sq, sa, accounting in batch:
        for fresh in (True, False):
            fb = "completed" if fresh else "shouldrun"
            w = code_world("slurm", fresh, accounting=accounting, code=sq, acct_code=sa, in_queue=sq is not None, acct_hidden=sa is None, state="RUNNING")
            rows, r, journal = status_rows(w)
            if sq is not None:
                allowed = RS.allowed(RS.SLURM_SQUEUE, sq, fb)
            elif accounting and sa is not None:
                allowed = RS.allowed(RS.SLURM_SACCT, sa, fb)
            else:
                allowed = {fb}
            case = dict(kind="matrix", squeue=sq, sacct=sa, accounting=accounting, fresh=fresh)
            got = rows.get("T") if rows else f"crash:{r.exc or r.err_summary()}"
            acc.case(key=json.dumps(case), outcome=f"matrix:{got}", sample=case)
            acc.extra["invocations"] += 1
            sacct_calls = [e for e in journal if e["exe"] == "sacct"]
            if got not in allowed:
                acc.violation(sig=dict(kind="matrix", squeue=sq is not None, sacct=sa is not None, accounting=accounting), case=case, expected=sorted(allowed), observed=got,
                              msg=f"slurm squeue={sq} sacct={sa} accounting={'on' if accounting else 'off'}: shown {got!r}, allowed {sorted(allowed)}")
            if not accounting and sacct_calls:
                acc.violation(sig=dict(kind="matrix-sacct-called"), case=case, observed=[e["argv"] for e in sacct_calls], msg="accounting disabled but sacct was invoked")
            if not accounting and fresh:
                # ... not even when the live queue cannot be reached
                for fk in ("rc1", "stderr_error"):
                    wf2 = w.copy()
                    wf2.sim["faults"] = {"squeue#0": fk}
                    with W.Session(wf2) as s2:
                        r2 = s2.gwf(["status"])
                        called = [e["argv"] for e in s2.sim.s["journal"] if e["op"] == "call" and e["exe"] == "sacct"]
                    acc.extra["invocations"] += 1
                    if called:
                        acc.violation(sig=dict(kind="matrix-sacct-called-on-squeue-failure"), case=dict(case, squeue_fault=fk), observed=called,
                                      msg=f"accounting disabled, squeue failing ({fk}): sacct was consulted anyway")
            if accounting and rows is not None and rows.get("U") != "submitted":
                acc.violation(sig=dict(kind="matrix-U"), case=case, observed=rows, msg="unrelated pending target U not shown submitted")


class BigWorkflow(W.Workflow):
    def __init__(self, n):
        super().__init__([])
        self.n = n

    def key(self):
        return ("big", self.n)

    def names(self):
        return [f"T{i}" for i in range(self.n)]

    def source(self):
        return ("from gwf import Workflow\ngwf = Workflow()\n"
                f"for i in range({self.n}):\n    gwf.target(f'T{{i}}', inputs=[], outputs=[f'o{{i}}']) << 'echo'\n")


MANY_STATES = [("PENDING", True, "submitted"), ("RUNNING", True, "running"), ("FAILED", False, "failed"), ("DONE", False, "FB"), ("CANCELLED", False, "cancelled"),
               ("TIMEOUT", False, "failed"), ("FAILED", True, "failed")]


def many_batch(acc, batch):
    for n, accounting in batch:
        sim = simsched.new_state("slurm", accounting=accounting)
        tracked, files, exp = {}, {}, {}
        for i in range(n):
            st, inq, cls = MANY_STATES[(i * 5 + i // 7) % len(MANY_STATES)]
            jid = str(5000 + i)
            j = mkjob(jid, f"T{i}", state=st, in_queue=inq)
            sim["jobs"][jid] = j
            sim["order"].append(jid)
            tracked[f"T{i}"] = jid
            fresh = i % 3 == 0
            if fresh:
                files[f"o{i}"] = (1, "x")
            fb = "completed" if fresh else "shouldrun"
            if not accounting and not inq:
                cls = "FB"
            exp[f"T{i}"] = fb if cls == "FB" else cls
        conf = {"backend": "slurm"}
        if not accounting:
            conf["backend.slurm.accounting_enabled"] = False
        w = W.World(BigWorkflow(n), files=files, conf=conf, tracked={"slurm": tracked}, sim=sim)
        rows, r, journal = status_rows(w)
        case = dict(kind="many", n=n, accounting=accounting)
        bad = {k: (rows.get(k), v) for k, v in exp.items() if rows.get(k) != v} if rows else {"crash": r.exc or r.err_summary()}
        acc.case(key=json.dumps(case), outcome=f"many ok={not bad}", sample=case)
        acc.extra["invocations"] += 1
        if bad:
            acc.violation(sig=dict(kind="many", n=n), case=case, observed=dict(list(bad.items())[:5]), msg=f"{n} tracked jobs: {len(bad)} rows wrong, e.g. {list(bad.items())[:3]}")


# ---------------------------------------------------------------------------------------------- (d)


def hist_probe(acc, world, trace, meta):
    pl = CW.ref_plan(world)
    rows, r, _ = status_rows(world)
    acc.extra["invocations"] += 1
    case = dict(kind="hist", meta=meta, trace=trace)
    if rows is None:
        acc.violation(sig=dict(kind="hist", backend=meta["backend"], what="status failed"), case=case, observed=r.as_dict(), msg=f"[{meta}] after {trace}: status failed: {r.exc or r.err_summary()}")
        return
    exp = pl["status"]
    if rows != exp:
        diff = {k: dict(shown=rows.get(k), expected=v, job=_jobinfo(world, k)) for k, v in exp.items() if rows.get(k) != v}
        acc.violation(sig=dict(kind="hist", backend=meta["backend"], what="row"), case=case, expected=exp, observed=rows,
                      msg=f"[{meta['wf']}/{meta['backend']}/acct={meta['accounting']}] after {trace}: rows differ from the scheduler's state of each target's latest job: {json.dumps(diff)[:500]}")
    # tracked file names the latest accepted job of every target that was ever accepted
    tracked = (world.tracked or {}).get(meta["backend"]) or {}
    exp_tracked = {}
    for t in world.wf.targets:
        j = CW.latest_job(world, t.name)
        if j is not None:
            exp_tracked[t.name] = j["id"]
    if tracked != exp_tracked:
        acc.violation(sig=dict(kind="hist", backend=meta["backend"], what="tracked"), case=case, expected=exp_tracked, observed=tracked,
                      msg=f"[{meta['wf']}/{meta['backend']}] after {trace}: tracked file {tracked!r} does not name the ids the scheduler returned {exp_tracked!r}")


def _jobinfo(world, name):
    j = CW.latest_job(world, name)
    return j and dict(id=j["id"], state=j["state"], in_queue=j["in_queue"], lag=j.get("acct_lag"))


def hist_expand(acc, batch, last=False, meta=None):
    for world, trace in batch:
        key = e2.world_key(world)
        acc.case(key=key, outcome=None, nontrivial=True, sample=dict(meta=meta, trace=trace) if len(trace) == 3 else None)
        hist_probe(acc, world, trace, meta)
        if last:
            continue
        acts = [("gwf", ["run"]), ("gwf", ["run", world.wf.names()[1]]), ("gwf", ["status"])]
        acts += CW.enabled_env(world, kinds=("start", "finish_ok", "finish_fail", "timeout", "cancel", "forget", "requeue"))
        if meta["backend"] == "slurm" and meta["accounting"]:
            for t in world.wf.targets:
                j = CW.latest_job(world, t.name)
                if j is not None and j["prev"] != j["state"] and not j.get("acct_lag"):
                    acts.append(("acct_lag", t.name, True))
        acts += [("modify", "src")]
        for a in acts:
            w2, res = CW.apply_action(world, a)
            if res is not None and (res.exit_code != 0 or res.crashed()):
                acc.violation(sig=dict(kind="hist", backend=meta["backend"], what="run failed"), case=dict(kind="hist", meta=meta, trace=trace + [list(a)]), observed=res.as_dict(),
                              msg=f"[{meta}] after {trace}: gwf {a[1]} failed: {res.exc or res.err_summary()}")
                continue
            w2.normalize()
            acc.out.append((e2.world_key(w2), w2, trace + [list(a)]))
        acc.case(key=None, outcome=f"rows={sorted(set(CW.ref_plan(world)['status'].values()))}", nontrivial=False)


HIST_QUICK = [("fork", "slurm", True, 4), ("chain", "slurm", False, 3), ("chain", "sge", True, 3), ("fork", "lsf", True, 3)]
HIST_THOROUGH = [(wf, be, acct, 7 if wf != "diamond" else 5) for wf in ("fork", "chain", "diamond") for be, acct in (("slurm", True), ("slurm", False), ("sge", True), ("lsf", True))]


def run(ctx):
    import mc.checks.c08 as me

    quick = ctx.tier == "quick"
    ctx.pmap(me, "codes_batch", [("slurm", c) for c in RS.SLURM_SQUEUE] + [("lsf", c) for c in RS.LSF] + [("sge", c) for c in RS.SGE], chunk=2)
    sq = [None] + sorted(RS.SLURM_SQUEUE)
    sa = [None] + sorted(RS.SLURM_SACCT)
    ctx.pmap(me, "matrix_batch", [(a, b, acct) for a in sq for b in sa for acct in (True, False)], chunk=8)
    ctx.pmap(me, "many_batch", [(n, acct) for n in ((1, 1023, 1024, 1025, 2049) if not quick else (1, 1024, 1025, 2049)) for acct in (True, False)], chunk=1)
    done = []
    for wfname, backend, acct, depth in (HIST_QUICK if quick else HIST_THOROUGH):
        meta = dict(wf=wfname, backend=backend, accounting=acct, hashing=False, fresh=False)
        w0 = CW.init_world(wfname, backend, accounting=acct)
        inits = [w0]
        if backend == "slurm":
            # also start from a history in which gwf has *seen* a failed job that the scheduler then requeues under the same id
            first = w0.wf.names()[0]
            prefix = [("gwf", ["run", first]), ("env", "start", first), ("env", "finish_fail", first), ("gwf", ["status"]), ("env", "requeue", first)]
            w = w0
            for a in prefix:
                w, _ = CW.apply_action(w, a)
                w.normalize()
            inits.append((w, [list(a) for a in prefix]))
        lv = e2.bfs(ctx, me, "hist_expand", inits, depth, chunk=4, meta=meta)
        done.append(dict(meta, depth=depth))
    local_done = localchecks.run_local(ctx, me, ID, [("twocomp", 4), ("fork", 3)] if ctx.tier == "quick" else [("twocomp", 6), ("fork", 5), ("chain", 5)])
    ctx.notes.setdefault("coverage_extra", {})["local_backend"] = local_done
    ctx.traces_validated = ctx.acc.extra["transitions"]
    ctx.rule = ("codes/matrix/many: one case per (backend, documented code, file state) / (squeue, sacct, accounting, file state) / (N, accounting); hist: distinct "
                "canonical world states reached by BFS; every case runs the real `gwf status` in a separate invocation")
    ctx.bound = dict(slurm_codes=len(RS.SLURM_SQUEUE), sacct_states=len(RS.SLURM_SACCT), lsf=len(RS.LSF), sge=len(RS.SGE), hist=done)
    ctx.assumptions = ["state-code classes in mc/ref/sched.py are my reading of the squeue/sacct/bjobs/qstat documentation; codes the statement does not settle get permitted sets",
                       "simulated schedulers; local backend covered separately (pool checks)"]


def replay(case):
    if case.get("kind") == "local":
        return localchecks.replay(case)
    from mc.runner import Acc

    acc = Acc()
    k = case["kind"]
    if k == "codes":
        codes_batch(acc, [(case["backend"], case["code"])])
    elif k == "matrix":
        matrix_batch(acc, [(case["squeue"], case["sacct"], case["accounting"])])
    elif k == "many":
        many_batch(acc, [(case["n"], case["accounting"])])
    else:
        meta = case["meta"]
        w = CW.init_world(meta["wf"], meta["backend"], accounting=meta["accounting"])
        for a in case["trace"]:
            w, res = CW.apply_action(w, tuple(a) if a[0] != "gwf" else ("gwf", a[1]))
            if res is not None and a[1] and a[1][0] == "run" and (res.exit_code != 0 or res.crashed()):
                acc.violation(sig=dict(kind="hist", backend=meta["backend"], what="run failed"), case=case, observed=res.as_dict(), msg=f"[{meta}] gwf {a[1]} failed: {res.exc or res.err_summary()}")
                return acc.violations
            w.normalize()
        hist_probe(acc, w, case["trace"], meta)
    return acc.violations
