"""C02 — submission plan: stale cone only, once each, dependencies first, exact prerequisites.

E1: every labelled DAG on n targets x every backend-state vector (6^n) x every per-target freshness
(own outputs missing / older / newer than inputs) x a selection alphabet; the real `filter_names` +
`submit_workflow` over a real TrackingBackend (tracked file written and re-read) with recording ops.
Observed = the *sequence* of (target, dependency ids) submissions and the tracked file afterwards.
Second family: the multi-output / shared-input workflows of C01(b) x backend vectors.
"""
import fnmatch
import json
import itertools

from mc import gwfh
from mc.ref import graph as G
from mc.ref import plan as P

ID = "C02"
LEVEL = "exploration"
WD = gwfh.WD
FRESH = ("missing", "older", "newer")


def all_dags(n):
    """Every labelled DAG on n nodes as a tuple of dependency tuples: deps[i] = nodes i depends on.
    Acyclicity is decided by the reference, not by construction order (so T2 -> T0 edges occur too)."""
    pairs = [(i, j) for i in range(n) for j in range(n) if i != j]
    res = []
    for mask in range(1 << len(pairs)):
        deps = {f"T{i}": set() for i in range(n)}
        for b, (i, j) in enumerate(pairs):
            if mask >> b & 1:
                deps[f"T{i}"].add(f"T{j}")
        if not G.has_cycle(deps):
            res.append(tuple(tuple(sorted(int(d[1:]) for d in deps[f"T{i}"])) for i in range(n)))
    return res


def selections(n, quick):
    names = [f"T{i}" for i in range(n)]
    sels = [None]
    subsets = [list(c) for k in range(1, n + 1) for c in itertools.combinations(names, k)]
    if quick:
        subsets = [s for s in subsets if len(s) == 1 or s == names[:2]]
    sels += subsets
    sels += [["T[12]"], ["X*"], ["T1", "T*"]] if quick else [["T*"], ["T[12]"], ["?1"], ["X*"], ["T1", "T*"]]
    return sels


def sel_roots(sel, names):
    if sel is None:
        return None
    return {n for pat in sel for n in names if fnmatch.fnmatchcase(n, pat)}


def realise(dag, fresh):
    """DAG + freshness vector -> (target descs, files) with one output per target and a source per root."""
    n = len(dag)
    descs, files = [], {}
    order = G.topo_order({i: set(dag[i]) for i in range(n)})
    ins_of = {}
    for i in range(n):
        ins_of[i] = [f"o{d}" for d in dag[i]] or [f"s{i}"]
        if not dag[i]:
            files[f"{WD}/s{i}"] = 10.0
    for i in order:
        existing = [files[f"{WD}/{p}"] for p in ins_of[i] if f"{WD}/{p}" in files]
        if fresh[i] == "missing":
            continue
        if fresh[i] == "newer":
            files[f"{WD}/o{i}"] = (max(existing) if existing else 10.0) + 1.0
        else:
            files[f"{WD}/o{i}"] = (min(existing) if existing else 10.0) - 1.0
    for i in range(n):
        descs.append(dict(name=f"T{i}", inputs={f"{WD}/{p}" for p in ins_of[i]}, outputs={f"{WD}/o{i}"}, _ins=ins_of[i], _outs=[f"o{i}"]))
    return descs, files


def build(descs, files):
    from gwf.core import Graph

    targets = {d["name"]: gwfh.mk_target(d["name"], d["_ins"], d["_outs"], spec="x") for d in descs}
    universe = {p for d in descs for p in d["inputs"] | d["outputs"]}
    fs = gwfh.mk_fs(files, universe)
    return Graph.from_targets(targets, fs), fs


def observe(descs, files, tracked, states, sel, scratch, built=None):
    """Run the real code; returns dict(seq=[(name, [dep ids], new id)], tracked_after, other)"""
    from gwf.core import NoopSpecHashes
    from gwf.filtering import filter_names
    from gwf.scheduling import submit_workflow

    g, fs = built or build(descs, files)
    be, ops = gwfh.open_backend(scratch, states)
    with be:
        endpoints = filter_names(g, sel) if sel else g.endpoints()
        submit_workflow(endpoints, g, fs, NoopSpecHashes(), be)
    seq = [(j[1], list(j[2]), j[3]) for j in ops.journal if j[0] == "submit"]
    other = [j for j in ops.journal if j[0] not in ("submit", "query")]
    return dict(seq=seq, tracked_after=gwfh.read_tracked(scratch), other=other, closed=ops.closed)


def judge(descs, files, bvec, tracked, sel, obs):
    """Compare an observation with ref.plan; returns list of problem strings."""
    names = [d["name"] for d in descs]
    pl = P.plan(descs, files, bvec, None, roots=sel_roots(sel, names))
    problems = []
    seq = obs["seq"]
    sub_names = [s[0] for s in seq]
    if sorted(sub_names) != sorted(pl["submitted"]):
        problems.append(f"submitted {sub_names} expected set {sorted(pl['submitted'])}")
        return problems
    new_id = {}
    for name, dep_ids, jid in seq:
        exp_ids = []
        for d in sorted(pl["prereqs"][name]):
            if d in pl["submitted"]:
                if d not in new_id:
                    problems.append(f"{name} submitted before its prerequisite {d}")
                    continue
                exp_ids.append(new_id[d])
            else:  # in flight from an earlier invocation
                exp_ids.append(tracked[d])
        if sorted(dep_ids) != sorted(exp_ids):
            problems.append(f"{name} prerequisites {dep_ids} expected {sorted(exp_ids)} (deps not complete: {sorted(pl['prereqs'][name])})")
        new_id[name] = jid
    exp_tracked = dict(tracked)
    exp_tracked.update(new_id)
    if obs["tracked_after"] != exp_tracked:
        problems.append(f"tracked file {obs['tracked_after']} expected {exp_tracked}")
    if obs["other"]:
        problems.append(f"unexpected backend operations {obs['other']}")
    return problems


def dag_batch(acc, batch, sels=None):
    from mc.runner import worker_scratch

    scratch = worker_scratch("c02")
    for dag in batch:
        n = len(dag)
        names = [f"T{i}" for i in range(n)]
        for fresh in itertools.product(FRESH, repeat=n):
            descs, files = realise(dag, fresh)
            built = build(descs, files)
            for bv in itertools.product(gwfh.BSTATES, repeat=n):
                bvec = dict(zip(names, bv))
                tracked, states = gwfh.tracked_for(bvec)
                for sel in sels:
                    case = dict(kind="dag", dag=dag, fresh=fresh, bv=bv, sel=sel)
                    try:
                        gwfh.write_tracked(scratch, tracked)
                        obs = observe(descs, files, tracked, states, sel, scratch, built)
                        problems = judge(descs, files, bvec, tracked, sel, obs)
                        out = (len(obs["seq"]), sum(len(s[1]) for s in obs["seq"]))
                    except Exception as e:
                        problems = [f"exception {type(e).__name__}: {e}"]
                        out = "exception"
                    acc.case(key=(dag, fresh, bv, str(sel)), outcome=str(out), sample=case, nontrivial=out != (0, 0))
                    if problems:
                        acc.violation(sig=dict(kind="dag", what=problems[0].split(" ")[1][:12]), case=case, observed=problems,
                                      msg=f"dag={dag} fresh={fresh} backend={bv} selection={sel}: {problems[0]}")


def wf_batch(acc, batch, ranks=2, sels=(None, ["T0"], ["T1"])):
    from mc.runner import worker_scratch

    scratch = worker_scratch("c02")
    for combo in batch:
        m, n = len(combo[0]), len(combo)
        names = [f"T{i}" for i in range(n)]
        produced = {j for r in combo for j in range(m) if r[j] == "o"}
        consumed = {j for r in combo for j in range(m) if r[j] == "i"}
        dom = [list(range(1, ranks + 1)) if j in consumed - produced else ([None] + list(range(1, ranks + 1)) if j in produced else [None]) for j in range(m)]
        descs = []
        for ti, r in enumerate(combo):
            ins = [f"f{j}" for j in range(m) if r[j] == "i"]
            outs = [f"f{j}" for j in range(m) if r[j] == "o"]
            descs.append(dict(name=f"T{ti}", inputs={f"{WD}/{p}" for p in ins}, outputs={f"{WD}/{p}" for p in outs}, _ins=ins, _outs=outs))
        for fstate in itertools.product(*dom):
            files = {f"{WD}/f{j}": float(fstate[j]) for j in range(m) if fstate[j] is not None}
            built = build(descs, files)
            for bv in itertools.product(gwfh.BSTATES, repeat=n):
                bvec = dict(zip(names, bv))
                tracked, states = gwfh.tracked_for(bvec)
                for sel in sels:
                    case = dict(kind="wf", combo=combo, fstate=fstate, bv=bv, sel=sel)
                    try:
                        gwfh.write_tracked(scratch, tracked)
                        obs = observe(descs, files, tracked, states, sel, scratch, built)
                        problems = judge(descs, files, bvec, tracked, sel, obs)
                        out = (len(obs["seq"]), sum(len(s[1]) for s in obs["seq"]))
                    except Exception as e:
                        problems = [f"exception {type(e).__name__}: {e}"]
                        out = "exception"
                    acc.case(key=(combo, fstate, bv, str(sel)), outcome="wf" + str(out), sample=case, nontrivial=out != (0, 0))
                    if problems:
                        acc.violation(sig=dict(kind="wf", what=problems[0].split(" ")[1][:12]), case=case, observed=problems,
                                      msg=f"workflow={combo} files={fstate} backend={bv} selection={sel}: {problems[0]}")


def cli_batch(acc, batch):
    """CLI sub-bound: the real `gwf run <selection>` (plugins/run.py incl. its own selection logic) on a simulated Slurm."""
    from mc import world as W

    for dag, fresh, sel in batch:
        n = len(dag)
        descs, files = realise(dag, fresh)
        wf = W.Workflow([W.T(d["name"], d["_ins"], d["_outs"], spec="echo\n") for d in descs])
        ranks = {v: i + 1 for i, v in enumerate(sorted(set(files.values())))}
        wfiles = {p[len(WD) + 1:]: (ranks[v], "x") for p, v in files.items()}
        w = W.World(wf, files=wfiles, conf={"backend": "slurm"})
        with W.Session(w) as s:
            r = s.gwf(["run"] + (sel or []))
            subs = s.sim.journal_submits()
            idname = {e["id"]: e["name"] for e in subs}
        names = [d["name"] for d in descs]
        pl = P.plan(descs, files, {}, None, roots=sel_roots(sel, names))
        case = dict(kind="cli", dag=dag, fresh=fresh, sel=sel)
        problems = []
        if r.exit_code != 0 or r.crashed():
            problems.append(f"run failed: {r.exc or r.err_summary()}")
        got = [e["name"] for e in subs]
        if sorted(got) != sorted(pl["submitted"]):
            problems.append(f"submitted {got} expected set {sorted(pl['submitted'])}")
        else:
            seen = set()
            for e in subs:
                ids = [i for _t, g in (e["deps"] or {"groups": [[]]})["groups"][0] for i in g] if e["deps"] else []
                depnames = sorted(idname.get(i, "?" + i) for i in ids)
                if depnames != sorted(pl["prereqs"][e["name"]]) or not set(depnames) <= seen:
                    problems.append(f"{e['name']} submitted with prerequisites {depnames} (argv {e['argv']}), expected {sorted(pl['prereqs'][e['name']])} submitted earlier")
                seen.add(e["name"])
        acc.case(key=json.dumps(case), outcome=f"cli n_submit={len(got)}", sample=case, nontrivial=bool(got))
        acc.extra["cli_invocations"] += 1
        if problems:
            acc.violation(sig=dict(kind="cli", what=problems[0].split(" ")[0]), case=case, observed=problems, msg=f"`gwf run {' '.join(sel or [])}` dag={dag} fresh={fresh}: {problems[:2]}")


def cli_reject_batch(acc, batch):
    """The scheduler rejects the k-th submission of a run (sbatch exits 1, no job): nothing that depends on the rejected target, directly
    or through other targets, may be submitted in that run, and what is submitted still names exactly its prerequisites."""
    from mc import world as W

    for dag, fresh in batch:
        descs, files = realise(dag, fresh)
        wf = W.Workflow([W.T(d["name"], d["_ins"], d["_outs"], spec="echo\n") for d in descs])
        ranks = {v: i + 1 for i, v in enumerate(sorted(set(files.values())))}
        wfiles = {p[len(WD) + 1:]: (ranks[v], "x") for p, v in files.items()}
        w = W.World(wf, files=wfiles, conf={"backend": "slurm"})
        with W.Session(w) as s:
            s.gwf(["run"])
            order = [e["name"] for e in s.sim.journal_submits()]
        deps = {d["name"]: set() for d in descs}
        byout = {o: d["name"] for d in descs for o in d["_outs"]}
        for d in descs:
            deps[d["name"]] = {byout[i] for i in d["_ins"] if i in byout}

        def upstream(n, seen=None):
            seen = seen if seen is not None else set()
            for x in deps[n]:
                if x not in seen:
                    seen.add(x)
                    upstream(x, seen)
            return seen

        for k, rejected in enumerate(order):
            with W.Session(w) as s:
                s.sim.s["faults"] = {f"sbatch#{k}": "rc1"}
                r = s.gwf(["run"])
                subs = s.sim.journal_submits()
            idname = {e["id"]: e["name"] for e in subs}
            got = [e["name"] for e in subs]
            case = dict(kind="cli-reject", dag=dag, fresh=fresh, k=k, rejected=rejected)
            problems = []
            if r.crashed():
                problems.append(f"crash {r.exc}")
            bad = sorted(n for n in got if rejected in upstream(n))
            if bad:
                problems.append(f"{bad} submitted although {rejected}, which they depend on, was rejected")
            if rejected in got:
                problems.append(f"{rejected} is in the scheduler although its submission was rejected")
            for e in subs:
                ids = [i for _t, g in (e["deps"] or {"groups": [[]]})["groups"][0] for i in g] if e["deps"] else []
                want = sorted(deps[e["name"]] & set(order))
                if sorted(idname.get(i, "?" + i) for i in ids) != want:
                    problems.append(f"{e['name']} submitted with prerequisites {[idname.get(i, '?' + i) for i in ids]}, expected {want}")
            acc.case(key=json.dumps(case), outcome=f"reject k={k} submitted={len(got)}", sample=case, nontrivial=True)
            acc.extra["cli_invocations"] += 1
            if problems:
                acc.violation(sig=dict(kind="cli-reject", what=problems[0].split(" ")[-2] + " " + problems[0].split(" ")[-1]), case=case, observed=problems,
                              msg=f"dag={dag} fresh={fresh}: sbatch #{k} ({rejected}) rejected, run submitted {got}: {problems[:2]}")


def _subs_view(world):
    from mc import simsched

    subs = simsched.Sim(world.sim).journal_submits()
    idname = {e["id"]: e["name"] for e in subs}
    out = []
    for e in subs:
        d = e["deps"]
        if not d:
            ids = []
        elif isinstance(d, dict) and "groups" in d:  # Slurm
            ids = [i for grp in d["groups"] for _t, g in grp for i in g]
        elif isinstance(d, list):  # SGE: the -hold_jid list
            ids = list(d)
        else:  # LSF: parsed -w expression
            ids = list(simsched._lsf_ids(d))
        out.append((e["name"], sorted(idname.get(str(i), "?" + str(i)) for i in ids)))
    return out


PREVIEWS = ([["run", "-d"]], [["status"]], [["run", "-d"], ["status", "-f", "summary"]], [["run", "--dry-run", "A"], ["run", "-d"]])


def cli_preview_batch(acc, batch):
    """Histories: a project (fresh or empty, spec hashing on or off) + one disturbance (a script edited, a source touched, an output deleted)
    + a prefix of previews (`run --dry-run`, `status`) + the real `gwf run [sel]`.  Oracle: the real run submits exactly what it submits
    without the previews (same targets, same prerequisites), and the run without previews submits exactly the reference plan of that world
    (with hashing on, an edited script makes that target and everything downstream of it run; a target without outputs always runs)."""
    from mc import cliworld as CW
    from mc.ref import graph as G

    for wfname, hashing, fresh, setup, sel in batch:
        base = CW.build(wfname, "slurm", [tuple(a) for a in setup], hashing=hashing, fresh=fresh)
        base.sim["journal"] = []
        ref_w, ref_r = CW.apply_action(base, ("gwf", ["run"] + list(sel)))
        ref = _subs_view(ref_w)
        tl = [(t.name, set(t.flat("inputs")), set(t.flat("outputs"))) for t in base.wf.targets]
        dependents = G.relations(tl)["dependents"]
        for pv in ((),) + tuple(PREVIEWS):
            w = base
            problems = []
            for cmd in pv:
                w, r = CW.apply_action(w, ("gwf", list(cmd)))
                if r.exit_code != 0 or r.crashed():
                    problems.append(f"preview {cmd} failed: {r.exc or r.err_summary()}")
            pre = _subs_view(w)
            if pre:
                problems.append(f"previews submitted {pre}")
            w.sim["journal"] = []
            w, r = CW.apply_action(w, ("gwf", ["run"] + list(sel)))
            got = _subs_view(w)
            case = dict(kind="cli-preview", wf=wfname, hashing=hashing, fresh=fresh, setup=[list(a) for a in setup], sel=list(sel), previews=[list(c) for c in pv])
            if r.crashed() or r.exit_code != ref_r.exit_code:
                problems.append(f"run after previews: exit {r.exit_code} {r.exc}, without previews exit {ref_r.exit_code}")
            if sorted(got) != sorted(ref):
                problems.append(f"after previews {[list(c) for c in pv]} the run submitted {got}, without them {ref}")
            if not pv:
                want = set(CW.ref_plan(base, roots=list(sel) or None)["submitted"])
                if {g[0] for g in got} != want:
                    problems.append(f"run submitted {sorted(g[0] for g in got)}, reference plan {sorted(want)}")
            acc.case(key=json.dumps(case, sort_keys=True), outcome=f"preview n_submit={len(got)}", sample=case, nontrivial=bool(got))
            acc.extra["cli_invocations"] += 1 + len(pv)
            if problems:
                acc.violation(sig=dict(kind="cli-preview", what=problems[0].split(" ")[0] + " " + problems[0].split(" ")[1]), case=case, observed=problems,
                              msg=f"{wfname} hashing={hashing} fresh={fresh} setup={setup} sel={sel}: {problems[:2]}")


def cli_history_batch(acc, batch):
    """Histories through the real CLI: `gwf run`, the scheduler runs the dependencies of X to completion, X is started (or not), X's outputs
    are written (or not), X ends (cancelled by the user / failed / timed out / completed), the scheduler forgets it (or not), then `gwf run`
    again.  Oracle: the second run submits exactly the reference plan for the world as it then is (a target whose last job failed or was
    cancelled is submitted even when its files look fresh; pending targets are left alone), each with exactly its prerequisites."""
    from mc import cliworld as CW
    from mc.errors import SetupFailed
    from mc.ref import graph as G

    for wfname, backend, acct, x, started, fresh_out, end, forget in batch:
        case = dict(kind="cli-history", wf=wfname, backend=backend, accounting=acct, x=x, started=started, fresh_out=fresh_out, end=end, forget=forget)
        w = CW.init_world(wfname, backend, accounting=acct)
        tl = [(t.name, set(t.flat("inputs")), set(t.flat("outputs"))) for t in w.wf.targets]
        rel = G.relations(tl)
        order = [n for n in G.topo_order(rel["dependencies"])]
        ups, todo = set(), [x]
        while todo:
            for d in rel["dependencies"][todo.pop()]:
                if d not in ups:
                    ups.add(d)
                    todo.append(d)
        acts = [("gwf", ["run"])]
        for n in order:
            if n in ups:
                acts += [("env", "start", n), ("env", "finish_ok", n)]
        if started:
            acts.append(("env", "start", x))
        if fresh_out:
            acts += [("modify", o) for o in w.wf.by_name(x).flat("outputs")]
        if end is not None:
            acts.append(("env", end, x))
        if forget:
            acts.append(("env", "forget", x))
        try:
            for a in acts:
                if a[0] == "env" and a not in CW.enabled_env(w):
                    raise LookupError(a)
                w, res = CW.apply_action(w, a)
                if res is not None and (res.exit_code != 0 or res.crashed()):
                    raise SetupFailed(case, res.as_dict(), f"`gwf {a[1]}` failed: {res.exc or res.err_summary()}")
                w.normalize()
        except LookupError:
            continue  # this combination is not a possible history (e.g. finishing a job that never started)
        w.sim["journal"] = []
        plan = CW.ref_plan(w)
        w2, r = CW.apply_action(w, ("gwf", ["run"]))
        got = _subs_view(w2)
        problems = []
        if r.exit_code != 0 or r.crashed():
            problems.append(f"run failed: {r.exc or r.err_summary()}")
        if sorted(g[0] for g in got) != sorted(plan["submitted"]):
            problems.append(f"submitted {sorted(g[0] for g in got)} expected {sorted(plan['submitted'])} (scheduler view {{}})".format(
                {t.name: CW.job_class(w, t.name) for t in w.wf.targets}))
        else:
            live = {t.name: CW.latest_job(w, t.name) for t in w.wf.targets}
            for name, deps in got:
                want = set(plan["prereqs"][name])
                named = set(d for d in deps if not d.startswith("?"))
                old = [d for d in deps if d.startswith("?")]
                want_old = {n for n in want if n not in plan["submitted"]}
                if named != want - want_old or len(old) != len(want_old) or any(live[n] is None or "?" + live[n]["id"] not in old for n in want_old):
                    problems.append(f"{name} submitted with prerequisites {deps}, expected {sorted(want)}")
        acc.case(key=json.dumps(case, sort_keys=True), outcome=f"history n_submit={len(got)}", sample=case, nontrivial=bool(got))
        acc.extra["cli_invocations"] += 2
        if problems:
            acc.violation(sig=dict(kind="cli-history", backend=backend, end=end, what=problems[0].split(" ")[0]), case=case, observed=problems,
                          msg=f"{wfname}/{backend} acct={acct} X={x} started={started} outputs_written={fresh_out} end={end} forgotten={forget}: {problems[:2]}")


def history_items(quick):
    from mc import cliworld as CW

    items = []
    for wfname in (("chain",) if quick else ("chain", "fork", "shortcut", "diamond")):
        for backend, acct in (("slurm", True), ("slurm", False), ("sge", True), ("lsf", True)):
            for t in CW.WORKFLOWS[wfname]().targets:
                for started in (False, True):
                    for fresh_out in (False, True):
                        for end in (None, "cancel", "finish_fail", "timeout", "finish_ok"):
                            for forget in (False, True):
                                items.append((wfname, backend, acct, t.name, started, fresh_out, end, forget))
    return items


def preview_items(quick):
    from mc import cliworld as CW

    items = []
    for wfname in (("chain", "shortcut") if quick else ("chain", "fork", "diamond", "shortcut", "topdown")):
        names = [t.name for t in CW.WORKFLOWS[wfname]().targets]
        outs = sorted(o for t in CW.WORKFLOWS[wfname]().targets for o in t.flat("outputs"))
        for hashing in (False, True):
            for fresh in (False, True):
                setups = [()]
                if fresh:
                    setups += [(("editspec", n),) for n in names] + [(("modify", "src"),)] + [(("delete", o),) for o in (outs if not quick else outs[:2])]
                for setup in setups:
                    for sel in ((), (names[-1],)) if not quick else ((),):
                        items.append((wfname, hashing, fresh, setup, sel))
    return items


def run(ctx):
    import mc.checks.c01 as c01
    import mc.checks.c02 as me

    quick = ctx.tier == "quick"
    n = 3
    dags = all_dags(3)
    ctx.pmap(me, "dag_batch", dags, chunk=1, sels=selections(3, quick))
    if not quick:
        # n = 4: all 543 labelled DAGs, reduced alphabets (backend states incl. every class, selections default+singletons+pattern)
        ctx.pmap(me, "dag4_batch", all_dags(4), chunk=4)
    ctx.pmap(me, "cli_reject_batch", [(dag, fresh) for dag in dags for fresh in (("missing",) * 3, ("newer", "older", "missing"), ("older", "newer", "missing"))], chunk=4)
    ctx.pmap(me, "cli_batch", [(dag, fresh, sel) for dag in dags for fresh in (("missing",) * 3, ("newer", "older", "missing"), ("newer", "newer", "newer"))
                               for sel in selections(3, False)], chunk=16)
    ctx.pmap(me, "cli_preview_batch", preview_items(quick), chunk=2)
    ctx.pmap(me, "cli_history_batch", history_items(quick), chunk=8)
    ctx.pmap(me, "wf_batch", c01.wf_items(2, 3), ranks=2 if quick else 3, sels=(None, ["T1"]) if quick else (None, ["T0"], ["T1"]))
    ctx.rule = ("case = (labelled DAG, per-target freshness, backend-state vector, selection) or (2-target/3-file workflow, file state, "
                "backend vector, selection); non-trivial = at least one submission happens")
    ctx.bound = dict(dags_n3=len(dags), backend_states=6, fresh=3, selections=len(selections(3, quick)), dags_n4=None if quick else 543,
                     wf="n=2,m=3,ranks=%d" % (2 if quick else 3))
    ctx.assumptions = ["scheduler answers are presented through TrackingBackend's ops interface (recording ops issuing fresh ids)",
                       "hashing off in the DAG families (C01/C18 cover the hash dimension); the preview family runs with hashing on and off"]


def dag4_batch(acc, batch):
    from mc.runner import worker_scratch

    scratch = worker_scratch("c02")
    B4 = ("unknown", "running", "failed", "cancelled", "submitted")
    for dag in batch:
        n = 4
        names = [f"T{i}" for i in range(n)]
        for fresh in itertools.product(("missing", "newer", "older"), repeat=n):
            if fresh.count("older") > 1:
                continue
            descs, files = realise(dag, fresh)
            built = build(descs, files)
            for bv in itertools.product(B4, repeat=n):
                if sum(b != "unknown" for b in bv) > 2:
                    continue
                bvec = dict(zip(names, bv))
                tracked, states = gwfh.tracked_for(bvec)
                for sel in (None, ["T0"], ["T3"], ["T[12]"]):
                    case = dict(kind="dag", dag=dag, fresh=fresh, bv=bv, sel=sel)
                    try:
                        gwfh.write_tracked(scratch, tracked)
                        obs = observe(descs, files, tracked, states, sel, scratch, built)
                        problems = judge(descs, files, bvec, tracked, sel, obs)
                        out = (len(obs["seq"]), sum(len(s[1]) for s in obs["seq"]))
                    except Exception as e:
                        problems = [f"exception {type(e).__name__}: {e}"]
                        out = "exception"
                    acc.case(key=(dag, fresh, bv, str(sel)), outcome=str(out), sample=None, nontrivial=out != (0, 0))
                    if problems:
                        acc.violation(sig=dict(kind="dag4", what=problems[0].split(" ")[1][:12]), case=case, observed=problems,
                                      msg=f"dag={dag} fresh={fresh} backend={bv} selection={sel}: {problems[0]}")


def replay(case):
    from mc.runner import Acc, worker_scratch

    scratch = worker_scratch("c02")
    acc = Acc()
    c = case
    if c["kind"] == "cli":
        cli_batch(acc, [(tuple(tuple(x) for x in c["dag"]), tuple(c["fresh"]), c["sel"])])
        return acc.violations
    if c["kind"] == "cli-history":
        cli_history_batch(acc, [(c["wf"], c["backend"], c["accounting"], c["x"], c["started"], c["fresh_out"], c["end"], c["forget"])])
        return acc.violations
    if c["kind"] == "cli-preview":
        cli_preview_batch(acc, [(c["wf"], c["hashing"], c["fresh"], tuple(tuple(a) for a in c["setup"]), tuple(c["sel"]))])
        return [v for v in acc.violations if v["case"]["previews"] == c["previews"]]
    if c["kind"] == "cli-reject":
        cli_reject_batch(acc, [(tuple(tuple(x) for x in c["dag"]), tuple(c["fresh"]))])
        return [v for v in acc.violations if v["case"]["k"] == c["k"]]
    if c["kind"] == "dag":
        dag = tuple(tuple(x) for x in c["dag"])
        descs, files = realise(dag, tuple(c["fresh"]))
        names = [f"T{i}" for i in range(len(dag))]
    else:
        combo = tuple(c["combo"])
        m = len(combo[0])
        names = [f"T{i}" for i in range(len(combo))]
        descs = []
        for ti, r in enumerate(combo):
            ins = [f"f{j}" for j in range(m) if r[j] == "i"]
            outs = [f"f{j}" for j in range(m) if r[j] == "o"]
            descs.append(dict(name=f"T{ti}", inputs={f"{WD}/{p}" for p in ins}, outputs={f"{WD}/{p}" for p in outs}, _ins=ins, _outs=outs))
        files = {f"{WD}/f{j}": float(c["fstate"][j]) for j in range(m) if c["fstate"][j] is not None}
    bvec = dict(zip(names, c["bv"]))
    tracked, states = gwfh.tracked_for(bvec)
    gwfh.write_tracked(scratch, tracked)
    try:
        obs = observe(descs, files, tracked, states, c["sel"], scratch)
        problems = judge(descs, files, bvec, tracked, c["sel"], obs)
    except Exception as e:
        problems = [f"exception {type(e).__name__}: {e}"]
        obs = None
    if problems:
        acc.violation(dict(kind=c["kind"]), case, observed=dict(problems=problems, obs=obs))
    return acc.violations
