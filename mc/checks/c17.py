"""C17 — cancel hits exactly the selected targets' latest jobs; one failure stops nothing else.

E2: world states reached by BFS over {run, run X, scheduler transitions, forget} (every mix of never-submitted / pending /
running / finished / superseded jobs); in every state `gwf cancel` is run with every selection (none + prompt y/n/EOF, -f, each name,
pattern, non-matching), and with the k-th cancel command failing for every k and both failure kinds. Function level: every
iteration order of the selected set x failing position through cancel_many on a real TrackingBackend.
"""
import fnmatch
import itertools
import json

from mc import cliworld as CW
from mc import e2
from mc import gwfh
from mc import simsched
from mc import world as W

from mc import localchecks
from mc.localchecks import expand as local_expand  # noqa: F401 (looked up by name in the workers)

from mc import freshtier
from mc.freshtier import compare_batch as fresh_compare_batch  # noqa: F401

ID = "C17"
LEVEL = "model_checking"
CANCEL_EXE = {"slurm": "scancel", "sge": "qdel", "lsf": "bkill"}


def selections(wf):
    names = wf.names()
    return [("all-f", ["-f"], None), ("all-y", [], "y\n"), ("all-n", [], "n\n"), ("all-eof", [], "")] + \
           [(n, [n], None) for n in names] + [("pat", ["[BC]*"], None), ("pat-f", ["-f", "[AB]"], None), ("nomatch", ["Zz*"], None), ("two", [names[0], names[-1]], None),
            # one target selected twice (a pattern and its own name, the same name twice): still one cancellation per job
            ("overlap", ["[AB]*", names[1]], None), ("twice", [names[0], names[0]], None)]


def selected_names(wf, label, args):
    names = wf.names()
    pats = [a for a in args if a != "-f"]
    if not pats:
        return set(names)
    return {n for p in pats for n in names if fnmatch.fnmatchcase(n, p)}


def probe(acc, world, trace, meta, with_faults=True):
    wf = world.wf
    backend = meta["backend"]
    exe = CANCEL_EXE[backend]

    def viol(what, observed, **sig):
        acc.violation(sig=dict(what=what, backend=backend, **sig), case=dict(meta=meta, trace=trace), observed=observed,
                      msg=f"[{meta['wf']}/{backend}] after {trace}: {what}: {json.dumps(observed, default=str)[:500]}")

    latest = {t.name: CW.latest_job(world, t.name) for t in wf.targets}
    for label, args, inp in selections(wf):
        sel = selected_names(wf, label, args)
        declined = label in ("all-n", "all-eof")
        must = {latest[n]["id"] for n in sel if latest[n] is not None and latest[n]["state"] in simsched.ACTIVE}
        may = {latest[n]["id"] for n in sel if latest[n] is not None}
        ncmds = len(may)
        fault_plans = [None]
        if with_faults and not declined and label in ("all-f", "two", "pat", "B", "overlap"):
            fault_plans += [(k, kind) for k in range(ncmds) for kind in ("rc1", "stderr_error", "rc1_silent")]
        for fp in fault_plans:
            w0 = world.copy()
            if fp:
                w0.sim["faults"] = {f"{exe}#{fp[0]}": fp[1]}
            with W.Session(w0) as s:
                r = s.gwf(["cancel"] + args, input=inp)
                acc.extra["invocations"] += 1
                calls = [e for e in s.sim.s["journal"] if e["op"] == "call" and e["exe"] == exe]
                cancels = s.sim.journal_cancels()
                subs = s.sim.journal_submits()
                snap = s.snapshot()
                faulted_ids = {e["argv"][-1] for e in calls if e.get("fault")}
                got_ids = [e["argv"][-1] for e in calls]
                sig = dict(sel=label if not label in wf.names() else "name", fault=fp[1] if fp else None)
                if r.crashed():
                    viol("cancel crashed", dict(args=args, result=r.as_dict()), **sig)
                    continue
                if declined:
                    if calls or r.exit_code == 0 or snap.semantic() != world.semantic():
                        viol("declined prompt but something happened", dict(args=args, calls=got_ids, exit=r.exit_code), **sig)
                    continue
                if r.exit_code != 0:
                    viol("cancel exited non-zero", dict(args=args, result=r.as_dict()), **sig)
                if subs:
                    viol("cancel submitted jobs", dict(args=args, submitted=[e["name"] for e in subs]), **sig)
                if len(got_ids) != len(set(got_ids)) or not set(got_ids) <= may or not must <= set(got_ids):
                    viol("cancel requests differ from the latest jobs of the selected targets", dict(args=args, selected=sorted(sel), requests=got_ids, must_include=sorted(must), allowed=sorted(may)), **sig)
                # untracked / finished targets are reported
                out = r.stdout + r.stderr
                for n in sel:
                    j = latest[n]
                    reported = any(n in l and any(w in l.lower() for w in ("could not", "cannot", "can't", "unable", "not cancel", "fail", "error")) for l in out.splitlines())
                    if (j is None or j["state"] not in simsched.ACTIVE or j["id"] in faulted_ids) and not reported:
                        viol("target that could not be cancelled is not reported", dict(args=args, target=n, output=out[-400:]), **sig)
                # the scheduler carries the cancellations out
                s.sim.carry_out_cancels()
                w1 = s.snapshot()
            pl = CW.ref_plan(w1)
            with W.Session(w1) as s2:
                rs = s2.gwf(["status"])
                rows = W.parse_status(rs.stdout) if rs.exit_code == 0 else None
                rr = s2.gwf(["run"])
                acc.extra["invocations"] += 2
                resub = sorted(e["name"] for e in s2.sim.journal_submits())
            still = sorted(n for n in sel if rows and rows.get(n) in ("submitted", "running") and latest[n] is not None and latest[n]["id"] not in faulted_ids)
            if rows is None or still or rows != pl["status"]:
                viol("after the cancellations were carried out a selected target is still shown in flight / rows wrong", dict(args=args, rows=rows, expected=pl["status"], still=still), **sig)
            if rr.exit_code != 0 or resub != sorted(pl["submitted"]):
                viol("next run does not submit what the plan requires after cancel", dict(args=args, submitted=resub, expected=sorted(pl["submitted"])), **sig)
            acc.case(key=None, outcome=f"{backend} sel={sig['sel']} req={len(got_ids)} fault={fp[1] if fp else None}", nontrivial=False)


def expand(acc, batch, last=False, meta=None, with_faults=True):
    for world, trace in batch:
        acc.case(key=e2.world_key(world), outcome=None, nontrivial=True, sample=dict(meta=meta, trace=trace) if len(trace) == 3 else None)
        probe(acc, world, trace, meta, with_faults=with_faults)
        if last:
            continue
        acts = [("gwf", ["run"]), ("gwf", ["run", world.wf.names()[1]])] + CW.enabled_env(world, kinds=("start", "finish_ok", "finish_fail", "forget"))
        for a in acts:
            w2, res = CW.apply_action(world, a)
            w2.normalize()
            acc.out.append((e2.world_key(w2), w2, trace + [list(a)]))


def order_batch(acc, batch):
    """Function level: every iteration order of <=3 selected targets x which cancel fails (TargetError via untracked,
    BackendError via failing ops)."""
    from gwf.backends.exceptions import BackendError
    from gwf.plugins.cancel import cancel_many
    from mc.runner import worker_scratch
    import click

    scratch = worker_scratch("c17")
    for n, failing, untracked in batch:
        names = [f"T{i}" for i in range(n)]
        targets = [gwfh.mk_target(x, [], [x.lower()]) for x in names]
        for perm in itertools.permutations(range(n)):
            tracked = {x: f"j{i}" for i, x in enumerate(names) if i not in untracked}
            gwfh.write_tracked(scratch, tracked)
            be, ops = gwfh.open_backend(scratch, {})
            orig = ops.cancel_job

            def cancel_job(job_id, orig=orig):
                orig(job_id)
                if job_id in {f"j{i}" for i in failing}:
                    raise BackendError("boom")

            ops.cancel_job = cancel_job
            try:
                from click.testing import CliRunner

                @click.command()
                def cmd():
                    cancel_many(be, [targets[i] for i in perm])

                res = CliRunner().invoke(cmd, [])
                exc = res.exception if not isinstance(res.exception, SystemExit) else None
            except Exception as e:  # pragma: no cover
                exc = e
            got = [j[1] for j in ops.journal if j[0] == "cancel"]
            exp = [f"j{i}" for i in perm if i not in untracked]
            case = dict(kind="order", n=n, failing=failing, untracked=untracked, perm=perm)
            acc.case(key=json.dumps(case), outcome=f"order ok={got == exp}", sample=case)
            if got != exp or exc is not None:
                acc.violation(sig=dict(what="order", exc=type(exc).__name__ if exc else None), case=case, expected=exp, observed=dict(got=got, exc=repr(exc)),
                              msg=f"cancel_many over {[names[i] for i in perm]} with failing={failing} untracked={untracked}: cancelled {got}, expected {exp}, exception {exc!r}")


QUICK = [("fork", "slurm", 5), ("chain", "sge", 5), ("fork", "lsf", 5)]
THOROUGH = [(wf, be, 8) for wf in ("fork", "chain") for be in ("slurm", "sge", "lsf")] + [("diamond", be, 5) for be in ("slurm", "lsf")]


def run(ctx):
    import mc.checks.c17 as me

    quick = ctx.tier == "quick"
    items = [(n, failing, untracked) for n in (1, 2, 3) for f in range(n + 1) for failing in itertools.combinations(range(n), f) if f <= 2
             for u in range(n + 1) for untracked in itertools.combinations(range(n), u) if u <= 1]
    ctx.pmap(me, "order_batch", items, chunk=4)
    done = []
    for wfname, backend, depth in (QUICK if quick else THOROUGH):
        meta = dict(wf=wfname, backend=backend)
        w0 = CW.init_world(wfname, backend)
        e2.bfs(ctx, me, "expand", [w0], depth, chunk=1, meta=meta, with_faults=True)
        done.append(dict(meta, depth=depth))
    local_done = localchecks.run_local(ctx, me, ID, [("twocomp", 3)] if ctx.tier == "quick" else [("twocomp", 5), ("fork", 4)])
    ctx.notes.setdefault("coverage_extra", {})["local_backend"] = local_done
    ctx.traces_validated = ctx.acc.extra["transitions"] + ctx.acc.extra["invocations"]
    ctx.pmap(me, "fresh_compare_batch", freshtier.items([(["cancel", "-f"], None), (["cancel"], "n\n"), (["cancel"], "y\n"), (["cancel", "B"], None), (["cancel", "Zz*"], None)], backends=("slurm", "sge", "lsf") if ctx.tier != "quick" else ("slurm", "lsf")), chunk=2)
    ctx.notes.setdefault("coverage_extra", {})["fresh_process_cases"] = ctx.acc.extra["fresh_processes"]
    ctx.rule = "state = canonical world; per state 13 selections x (no fault + every failing position x 2 kinds); function level: (n, failing set, untracked set, permutation)"
    ctx.bound = dict(configs=done, selections=13, fault_kinds=["rc1", "stderr_error", "rc1_silent"])
    ctx.assumptions = ["scheduler simulators: scancel --verbose / qdel / bkill semantics from documentation; a cancel command that fails changes nothing in the scheduler", "local pool: C13/C14"]


def replay(case):
    if case.get("kind") == "fresh":
        from mc.runner import Acc

        acc = Acc()
        for it in freshtier.items([(["cancel", "-f"], None), (["cancel"], "n\n"), (["cancel"], "y\n"), (["cancel", "B"], None), (["cancel", "Zz*"], None)]):
            if it[0] == case["label"] and it[2] == case["args"]:
                freshtier.compare_batch(acc, [it])
        return acc.violations
    if case.get("kind") == "local":
        return localchecks.replay(case)
    from mc.runner import Acc

    acc = Acc()
    if case.get("kind") == "order":
        order_batch(acc, [(case["n"], tuple(case["failing"]), tuple(case["untracked"]))])
        return acc.violations
    meta = case["meta"]
    w = CW.init_world(meta["wf"], meta["backend"])
    for a in case["trace"]:
        w, _ = CW.apply_action(w, tuple(a) if a[0] != "gwf" else ("gwf", a[1]))
        w.normalize()
    probe(acc, w, case["trace"], meta)
    return acc.violations
