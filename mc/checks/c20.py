"""C20 — configuration round-trips, is project-local, and reaches the selected backend.

E2  'conf'   BFS over the reachable contents of .gwfconf.json under `gwf config set K V` / `config unset K` (each a separate real
             invocation, alternately from the project root and from a nested directory): after every transition the file equals the
             reference map exactly (other keys undisturbed, file next to workflow.py) and `config get` prints the reference value.
E1  'prec'   backend: flag x config x default -> which scheduler's commands are issued; verbosity: flag x config x default ->
             presence of debug / info lines; colour: flag x config x NO_COLOR under a real pty (fresh processes) -> ANSI sequences.
    'ns'     all backend.<x>.* settings for x in {slurm, sge, lsf, local, slurmx} set at once: the selected backend receives exactly
             its own (Slurm log mode -> script directives, accounting switch -> sacct calls, local host/port -> connect target).
"""
import itertools
import json
import os
import re

from mc import e2
from mc import world as W

ID = "C20"
LEVEL = "model_checking"

WF = W.Workflow([W.T("A", [], ["a"], spec="echo A\n")])
DEFAULTED = {"verbose": "info", "clean_logs": True, "use_spec_hashes": False}

KEYS_FULL = ["a", "a.b", "a.bc", "backend", "verbose", "clean_logs", "backend.slurm.log_mode", "backend.slurmx.y", "neverset"]
VALUES_FULL = ["5", "-3", "0", "yes", "no", "true", "false", "True", "", "text", "1.5", "null", "a b", "é", "1.10", "1e3", ".50", "nan", "Infinity", "0x10", "[1]", "{}"]
VALUES_FOR = {"backend": ["slurm", "sge"], "verbose": ["debug", "warning"], "backend.slurm.log_mode": ["merged", "none"], "clean_logs": ["no", "yes", "0"]}


def coerce(v):
    """Reference coercion: integers, then yes/true, then no/false, else text."""
    if re.fullmatch(r"[+-]?[0-9]+", v):
        return int(v)
    if v in ("true", "yes"):
        return True
    if v in ("false", "no"):
        return False
    return v


def actions(keys, values):
    acts = []
    for k in keys:
        if k == "neverset":
            acts.append(("unset", k))
            continue
        for v in VALUES_FOR.get(k, values):
            acts.append(("set", k, v))
        acts.append(("unset", k))
    return acts


def expected_get(ref, k):
    if k in ref:
        return {str(ref[k])}
    if k in DEFAULTED:
        return {str(DEFAULTED[k]), "<not set>"}
    return {"<not set>"}


# global options given in the same invocation as `config set/unset/get`: they apply to that invocation only and never reach the file
FLAGSETS = [(), ("-b", "sge"), ("-v", "debug"), ("--no-color",), ("-b", "lsf", "-v", "warning")]


def conf_expand(acc, batch, last=False, keys=None, values=None, only_flags=None):
    for world, trace in batch:
        ref = dict(world.conf or {})
        acc.case(key=json.dumps(ref, sort_keys=True), outcome=None, nontrivial=True, sample=dict(trace=trace) if len(trace) == 2 else None)
        if last:
            continue
        for n, a, flags in [(n, a, f) for n, a in enumerate(actions(keys, values)) for f in (FLAGSETS if (len(trace) in (0, 3) and only_flags is None) else [tuple(only_flags or ())])]:
            nested = (len(trace) + n) % 2 == 1
            ref2 = dict(ref)
            if a[0] == "set":
                ref2[a[1]] = coerce(a[2])
                args = ["config", "set", "--", a[1], a[2]]
            else:
                ref2.pop(a[1], None)
                args = ["config", "unset", a[1]]
            with W.Session(world) as s:
                cwd = os.path.join(s.proj, "nested", "dir") if nested else None
                # the project sits below a directory that has a configuration file of its own (another project): that file is never read
                # for this project and never written
                outer_path = os.path.join(s.dir, ".gwfconf.json")
                outer_text = json.dumps({"outer_only": "from the directory above", "backend": "sge", "a": "outer"})
                with open(outer_path, "w") as f:
                    f.write(outer_text)
                r = s.gwf(list(flags) + args, cwd=cwd)
                other = "a" if a[1] != "a" else "a.b"
                g1 = s.gwf(list(flags) + ["config", "get", a[1]], cwd=cwd)
                g2 = s.gwf(["config", "get", other], cwd=None if nested else os.path.join(s.proj, "nested", "dir"))
                g3 = s.gwf(["config", "get", "outer_only"], cwd=cwd)
                acc.extra["invocations"] += 4
                snap = s.snapshot()
                outer_after = open(outer_path).read() if os.path.exists(outer_path) else None
            case = dict(kind="conf", trace=trace + [list(a)], nested=nested, flags=list(flags))
            problems = []
            if r.exit_code != 0 or r.crashed():
                problems.append(f"`gwf {' '.join(args)}` failed: exit {r.exit_code} {r.exc or r.err_summary()}")
            got = snap.conf if snap.conf is not None else {}
            if got != ref2:
                problems.append(f"file {got!r} expected {ref2!r}")
            if outer_after != outer_text:
                problems.append(f"the configuration file of the directory above the project was changed: {outer_after!r}")
            if g3.exit_code != 0 or g3.stdout.rstrip("\n") != "<not set>":
                problems.append(f"`config get outer_only` printed {g3.stdout.rstrip()!r} (a key that only the configuration file of the directory above has)")
            stray = [p for p in snap.files if p.endswith(".gwfconf.json")]
            if stray:
                problems.append(f"configuration file written outside the project root: {stray}")
            for g, k in ((g1, a[1]), (g2, other)):
                out = g.stdout.rstrip("\n") if g.exit_code == 0 else f"exit {g.exit_code} {g.exc or g.err_summary()}"
                if out not in expected_get(ref2, k):
                    problems.append(f"`config get {k}` printed {out!r}, expected one of {sorted(expected_get(ref2, k))}")
            acc.case(key=None, outcome=f"{a[0]} ok={not problems}", nontrivial=False)
            if problems:
                acc.violation(sig=dict(kind="conf", action=a[0], what=problems[0].split(" ")[0][:20], key=a[1] if a[1] in ("verbose", "clean_logs", "use_spec_hashes", "neverset") else "*"),
                              case=case, expected=ref2, observed=problems, msg=f"from {ref!r}, {'(nested dir) ' if nested else ''}`gwf {' '.join(list(flags) + args)}`: {problems}")
                continue
            if flags:
                continue  # same successor state as without the options
            w2 = world.copy()
            w2.conf = ref2 if (ref2 or snap.conf is not None) else None
            w2.conf = ref2
            acc.out.append((e2.digest(ref2) if hasattr(e2, "digest") else json.dumps(ref2, sort_keys=True), w2, trace + [list(a)]))


# ------------------------------------------------------------------------------------------- precedence


def prec_batch(acc, batch):
    for kind, flag, conf in batch:
        case = dict(kind="prec", what=kind, flag=flag, conf=conf)
        if kind == "backend":
            c = {} if conf is None else {"backend": conf}
            w = W.World(WF, files={}, conf=c or None)
            with W.Session(w) as s:
                r = s.gwf((["-b", flag] if flag else []) + ["status"])
                exes = sorted({e["exe"] for e in s.sim.s["journal"] if e["op"] == "call"})
                attempts = list(s.connect_attempts)
            acc.extra["invocations"] += 1
            want = flag or conf or "local"  # nothing installed in this sandbox: the local backend is the documented default
            family = {"slurm": {"squeue", "sacct", "sbatch"}, "sge": {"qstat", "qsub"}, "lsf": {"bjobs", "bsub"}}
            if want == "local":
                ok = bool(attempts) and not exes
            elif want == "lsf":
                ok = not attempts and set(exes) <= family["lsf"]  # no tracked jobs -> LSF issues no query at all
            else:
                ok = not attempts and bool(exes) and set(exes) <= family[want]
            obs = dict(exes=exes, local_connects=attempts, exit=r.exit_code)
            acc.case(key=json.dumps(case), outcome=f"backend->{want}:{ok}", sample=case)
            if not ok:
                acc.violation(sig=dict(kind="prec-backend", flag=bool(flag), conf=bool(conf)), case=case, expected=want, observed=obs,
                              msg=f"backend flag={flag} config={conf}: expected {want} to be used, observed {obs}")
        elif kind == "verbose":
            c = {"backend": "slurm"}
            if conf is not None:
                c["verbose"] = conf
            w = W.World(WF, files={}, conf=c)
            with W.Session(w) as s:
                r = s.gwf((["-v", flag] if flag else []) + ["run"])
            acc.extra["invocations"] += 1
            level = flag or conf or "info"
            has_debug = "Using 'slurm' backend" in r.stderr or "debug" in r.stderr.lower().split("submitting")[0]
            has_info = "Submitting target A" in r.stderr
            exp = dict(debug=level == "debug", info=level in ("debug", "info"))
            obs = dict(debug=has_debug, info=has_info)
            acc.case(key=json.dumps(case), outcome=f"verbose->{level}:{obs == exp}", sample=case)
            if obs != exp or r.exit_code != 0:
                acc.violation(sig=dict(kind="prec-verbose", flag=bool(flag), conf=bool(conf)), case=case, expected=exp, observed=dict(obs, exit=r.exit_code, stderr=r.stderr[-300:]),
                              msg=f"verbosity flag={flag} config={conf}: effective level must be {level}: expected {exp}, observed {obs}")


def colour_batch(acc, batch):
    """Fresh processes under a real pty."""
    import pty
    import shutil
    import subprocess
    import tempfile

    from mc import simsched
    from mc.runner import VERIF, worker_scratch

    for flag, conf, env_nc in batch:
        d = tempfile.mkdtemp(dir=worker_scratch("c20"))
        try:
            open(os.path.join(d, "workflow.py"), "w").write(WF.source())
            c = {"backend": "slurm"}
            if conf is not None:
                c["no_color"] = conf
            json.dump(c, open(os.path.join(d, ".gwfconf.json"), "w"))
            st = os.path.join(d, "sim.json")
            json.dump(simsched.new_state("slurm"), open(st, "w"))
            env = dict(os.environ, PATH=os.path.join(VERIF, "bin") + ":" + os.environ["PATH"], SIMSCHED_STATE=st, PYTHONPATH=os.path.join(os.environ.get("VERIF_REPO", "/repo"), "src"),
                       PYTHONDONTWRITEBYTECODE="1", TERM="xterm")
            env.pop("NO_COLOR", None)
            if env_nc:
                env["NO_COLOR"] = "1"
            master, slave = pty.openpty()
            args = ["/venv/bin/python", "-m", "gwf.cli"] if False else ["/venv/bin/python", "-c", "import sys; from gwf.cli import main; sys.argv[0]='gwf'; main()"]
            p = subprocess.Popen(args + ([flag] if flag else []) + ["status"], cwd=d, env=env, stdin=slave, stdout=slave, stderr=slave, close_fds=True)
            os.close(slave)
            out = b""
            while True:
                try:
                    chunk = os.read(master, 4096)
                except OSError:
                    break
                if not chunk:
                    break
                out += chunk
            p.wait()
            os.close(master)
        finally:
            shutil.rmtree(d, ignore_errors=True)
        acc.extra["fresh_processes"] += 1
        if flag == "--use-color":
            want = True
        elif flag == "--no-color":
            want = False
        elif conf is not None:
            want = not conf
        else:
            want = not env_nc
        got = b"\x1b[" in out
        case = dict(kind="colour", flag=flag, conf=conf, NO_COLOR=env_nc)
        acc.case(key=json.dumps(case), outcome=f"colour want={want} got={got}", sample=case)
        if got != want or p.returncode != 0 or b"shouldrun" not in out:
            acc.violation(sig=dict(kind="prec-colour", flag=flag, conf=conf is not None), case=case, expected=want, observed=dict(ansi=got, exit=p.returncode, out=out[-200:].decode("utf-8", "replace")),
                          msg=f"colour flag={flag} config no_color={conf} NO_COLOR={'set' if env_nc else 'unset'}: ANSI expected {want}, got {got}")


# ------------------------------------------------------------------------------------------- shared workflow file


def shared_batch(acc, batch):
    """Two projects whose workflow.py is a symbolic link to one shared file kept elsewhere: configuration and the .gwf directory belong to
    the project (where the link is), never to the directory of the shared file."""
    for action, where in batch:
        w = W.World(WF, files={"nested/dir/keep": (1, "k")}, conf=None)
        with W.Session(w) as s:
            shared = os.path.join(s.dir, "shared")
            os.makedirs(shared, exist_ok=True)
            os.replace(os.path.join(s.proj, "workflow.py"), os.path.join(shared, "workflow.py"))
            os.symlink(os.path.join("..", "shared", "workflow.py"), os.path.join(s.proj, "workflow.py"))
            cwd = os.path.join(s.proj, "nested", "dir") if where == "nested" else s.proj
            args = {"set": ["config", "set", "a", "5"], "status": ["-b", "slurm", "status"], "run": ["-b", "slurm", "run"]}[action]
            r = s.gwf(args, cwd=cwd)
            g = s.gwf(["config", "get", "a"], cwd=cwd)
            acc.extra["invocations"] += 2
            in_shared = sorted(os.listdir(shared))
            in_proj = sorted(os.listdir(s.proj))
        case = dict(kind="shared", action=action, where=where)
        problems = []
        if r.exit_code != 0 or r.crashed():
            problems.append(f"`gwf {' '.join(args)}` failed: {r.exc or r.err_summary()}")
        if in_shared != ["workflow.py"]:
            problems.append(f"written next to the shared workflow file: {in_shared}")
        if action == "set" and (".gwfconf.json" not in in_proj or g.stdout.strip() != "5"):
            problems.append(f"the project has {in_proj}; `config get a` printed {g.stdout.strip()!r}")
        if action in ("status", "run") and ".gwf" not in in_proj:
            problems.append(f"no .gwf directory in the project: {in_proj}")
        acc.case(key=json.dumps(case), outcome=f"shared {action} ok={not problems}", sample=case)
        if problems:
            acc.violation(sig=dict(kind="shared", action=action), case=case, observed=problems, msg=f"workflow.py is a link to a shared file, `gwf {' '.join(args)}` from {where}: {problems}")


# ------------------------------------------------------------------------------------------- namespaces

NS_CONF = {
    "backend.slurm.log_mode": "merged", "backend.slurm.accounting_enabled": False,
    "backend.local.port": 4321, "backend.local.host": "poolhost",
    "backend.slurmx.y": 1, "backend.slurm_old.log_mode": "none", "backend.localx.port": 1, "backend.sgex.z": 2, "backend.lsf2.q": 3,
    "backendx.slurm.log_mode": "none", "a.backend.slurm.log_mode": "none",
}


def ns_batch(acc, batch):
    for backend, subset in batch:
        conf = {"backend": backend}
        conf.update({k: v for k, v in NS_CONF.items() if subset == "all" or k.startswith(f"backend.{backend}.") or k == subset})
        w = W.World(WF, files={}, conf=conf)
        with W.Session(w) as s:
            r = s.gwf(["run"])
            calls = [e for e in s.sim.s["journal"] if e["op"] == "call"]
            subs = s.sim.journal_submits()
            attempts = list(s.connect_attempts)
            w_after = s.snapshot()
        acc.extra["invocations"] += 1
        if backend == "slurm" and r.exit_code == 0:
            # whether accounting is consulted only shows once there is a tracked job to ask about
            with W.Session(w_after) as s:
                s.gwf(["status"])
                calls += [e for e in s.sim.s["journal"] if e["op"] == "call"]
            wc = w_after.copy()
            wc.conf = dict(wc.conf, **{"backend.slurm.accounting_enabled": True})
            with W.Session(wc) as s:
                s.gwf(["status"])
                control = [e["exe"] for e in s.sim.s["journal"] if e["op"] == "call"]
            assert "sacct" in control, ("calibration: with accounting enabled `gwf status` must consult sacct", control)
            acc.extra["invocations"] += 2
        case = dict(kind="ns", backend=backend, subset=subset)
        problems = []
        if backend == "slurm":
            if r.exit_code != 0 or r.crashed():
                problems.append(f"run failed: {r.exc or r.err_summary()}")
            else:
                script = subs[0]["script"] if subs else ""
                if "#SBATCH --output=" not in script or "#SBATCH --error=" in script or "/dev/null" in script:
                    problems.append("log_mode=merged did not reach the Slurm backend (script directives)")
                if any(c["exe"] == "sacct" for c in calls):
                    problems.append("accounting_enabled=false did not reach the Slurm backend (sacct called)")
        elif backend == "local":
            if attempts != [("poolhost", 4321)]:
                problems.append(f"local backend connected to {attempts}, expected [('poolhost', 4321)]")
            if r.crashed():
                problems.append(f"crash: {r.exc}")
        else:
            if r.exit_code != 0 or r.crashed() or len(subs) != 1:
                problems.append(f"run failed: {r.exc or r.err_summary()}")
        acc.case(key=json.dumps(case), outcome=f"ns {backend} ok={not problems}", sample=case)
        if problems:
            acc.violation(sig=dict(kind="ns", backend=backend, subset="all" if subset == "all" else "single"), case=case, observed=problems,
                          msg=f"backend {backend} with settings {sorted(k for k in conf if k != 'backend')}: {problems}")


def run(ctx):
    import mc.checks.c20 as me

    quick = ctx.tier == "quick"
    w0 = W.World(WF, files={"nested/dir/keep": (1, "k")}, conf=None)
    w1 = W.World(WF, files={"nested/dir/keep": (1, "k")}, conf={"a": 1, "a.b": "x", "backend": "slurm"})
    prefix = [["set", "a", "1"], ["set", "a.b", "x"], ["set", "backend", "slurm"]]
    e2.bfs(ctx, me, "conf_expand", [w0, (w1, prefix)], 2 if quick else 3, chunk=2, keys=KEYS_FULL if not quick else ["a", "a.b", "a.bc", "verbose", "clean_logs", "neverset", "backend.slurmx.y"],
           values=VALUES_FULL if not quick else ["5", "-3", "yes", "false", "True", "", "text", "a b", "1.10", "1e3"])
    e2.bfs(ctx, me, "conf_expand", [w0], 3 if quick else 5, chunk=2, keys=["a", "a.b", "verbose"], values=["5", "no", "é"])
    bk = [None, "slurm", "sge", "lsf", "local"]
    ctx.pmap(me, "prec_batch", [("backend", f, c) for f in bk for c in bk] + [("verbose", f, c) for f in (None, "debug", "info", "warning") for c in (None, "debug", "info", "warning")], chunk=4)
    ctx.pmap(me, "colour_batch", [(f, c, e) for f in (None, "--no-color", "--use-color") for c in (None, True, False) for e in (False, True)], chunk=2)
    ctx.pmap(me, "shared_batch", [(a, w_) for a in ("set", "status", "run") for w_ in ("root", "nested")], chunk=2)
    ctx.pmap(me, "ns_batch", [(b, "all") for b in ("slurm", "sge", "lsf", "local")] + [(b, k) for b in ("slurm", "sge", "lsf", "local") for k in NS_CONF if not k.startswith(f"backend.{b}.")], chunk=4)
    ctx.traces_validated = ctx.acc.extra["transitions"]
    ctx.rule = "conf: state = content of .gwfconf.json (reference map), every set/unset transition is three real invocations; prec/ns: one case per flag x config (x environment) combination"
    ctx.bound = dict(conf_depth="2 (thorough 3) over the wide alphabet, 3 (thorough 5) over {a, a.b, verbose} x {5, no, é}", keys=len(KEYS_FULL), values=len(VALUES_FULL), colour_combinations=18)
    ctx.assumptions = ["strings whose integer-ness is debatable (1_000, ' 12 ', '007') are outside the alphabet", "no scheduler is installed in the sandbox, so the guessed default backend is 'local'",
                       "`config get` of an unset key that has a built-in default may print the default or <not set>"]


def replay(case):
    from mc.runner import Acc

    acc = Acc()
    k = case["kind"]
    if k == "conf":
        tr = case["trace"]
        w = W.World(WF, files={"nested/dir/keep": (1, "k")}, conf=None)
        # rebuild the reference state reached by the prefix, then re-run the last action among all actions
        ref = {}
        for a in tr[:-1]:
            if a[0] == "set":
                ref[a[1]] = coerce(a[2])
            else:
                ref.pop(a[1], None)
        w.conf = ref or None
        a2 = Acc()
        conf_expand(a2, [(w, tr[:-1])], keys=[tr[-1][1]], values=[tr[-1][2]] if tr[-1][0] == "set" else ["x"], only_flags=case.get("flags", []))
        return [v for v in a2.violations if v["case"]["trace"][-1] == tr[-1]] or a2.violations[:1]
    if k == "shared":
        shared_batch(acc, [(case["action"], case["where"])])
        return acc.violations
    if k == "prec":
        prec_batch(acc, [(case["what"], case["flag"], case["conf"])])
    elif k == "colour":
        colour_batch(acc, [(case["flag"], case["conf"], case["NO_COLOR"])])
    else:
        ns_batch(acc, [(case["backend"], case["subset"])])
    return acc.violations
