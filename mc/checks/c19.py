"""C19 — workflow definition: paths and names mean the same wherever gwf is run.

E1 metamorphic + validators:
 'where'  creation way {target, template without / with explicit working_dir, map (name None / string / function)} x workflow
          working_dir {inherited, explicit project dir, explicit other dir} x invoking {project root, nested subdirectory, unrelated dir with
          -f <abs>, unrelated dir with -f <relative>, -f wf.py:obj}: resolved absolute paths, `gwf info` relations, `gwf status` rows and the
          location of .gwf/ must be identical for every invoking directory and relative paths must resolve against the workflow's
          working directory.
 'names'  candidate name strings: plain identifiers accepted; empty, leading digit, space, dash, slash, control characters incl. a trailing
          newline rejected at definition; duplicates rejected.
 'paths'  path values: str / pathlib.Path / custom __fspath__ accepted; empty, every C0 control character and DEL at start/middle/end,
          None, int, bytes rejected at definition; nested in every container shape; inputs and outputs and working_dir.
 'map'    item kinds (str, tuple, dict, + extra), 0..3 items, naming modes: one target per item, names pairwise distinct, deterministic.
"""
import itertools
import json
import os
import pathlib

from mc import world as W

ID = "C19"
LEVEL = "exploration"

# ------------------------------------------------------------------------------------------- where

HOWS = ("target", "target_absmix", "template", "template_wd", "map_none", "map_str", "map_func", "glob_template_wd")
WF_WDS = ("inherit", "explicit_proj", "explicit_other")
INVOKE = ("root", "nested", "unrelated_abs", "unrelated_rel", "objname", "symlink", "fname_gwf_nested", "fname_gwf_unrelated", "fname_dash_unrelated")


def wf_source(how, wf_wd, objname="gwf"):
    """A two-target workflow A: src -> data/a ; B: data/a -> b, created in the given way. Appends a probe that dumps the
    resolved paths to $C19_PROBE."""
    wd_arg = {"inherit": "", "explicit_proj": "working_dir=PROJ", "explicit_other": "working_dir=os.path.join(PROJ, 'data')"}[wf_wd]
    # paths are written relative to the *workflow's* working dir
    if wf_wd == "explicit_other":
        src, a, b = "../src", "a", "../b"
    else:
        src, a, b = "src", "data/a", "b"
    lines = ["import os, json", "from gwf import Workflow, AnonymousTarget", "PROJ = os.path.dirname(os.path.realpath(__file__))", f"{objname} = Workflow({wd_arg})", "w = " + objname]
    if how == "target_absmix":
        # B names A's output by its absolute (real) path while A declares it relative to the working directory
        lines += [f"w.target('A', inputs=[{src!r}], outputs=[{a!r}]) << 'echo A'",
                  f"w.target('B', inputs=[os.path.join(PROJ, 'data', 'a')], outputs=[{b!r}]) << 'echo B'"]
    elif how == "target":
        lines += [f"w.target('A', inputs=[{src!r}], outputs=[{a!r}]) << 'echo A'", f"w.target('B', inputs=[{a!r}], outputs=[{b!r}]) << 'echo B'"]
    elif how in ("template", "template_wd"):
        wd = ", working_dir=w.working_dir" if how == "template_wd" else ""
        lines += ["def tpl(i, o):", f"    return AnonymousTarget(inputs=[i], outputs=[o], options={{}}, spec='echo'{wd})",
                  f"w.target_from_template('A', tpl({src!r}, {a!r}))", f"w.target_from_template('B', tpl({a!r}, {b!r}))"]
    elif how == "glob_template_wd":
        # inputs found with Workflow.glob (patterns relative to the workflow's working directory) handed to template targets that have a
        # working directory of their own
        pat = lambda p: p[:-1] + "?"
        lines += ["def tpl(i, o):", "    return AnonymousTarget(inputs=i, outputs=[o], options={}, spec='echo', working_dir=os.path.join(PROJ, 'nested'))",
                  f"w.target_from_template('A', tpl(w.glob({pat(src)!r}), os.path.join(PROJ, 'data', 'a')))",
                  f"w.target_from_template('B', tpl(list(w.iglob({pat(a)!r})), os.path.join(PROJ, 'b')))"]
    else:
        lines += ["def tpl(i, o):", "    return AnonymousTarget(inputs=[i], outputs=[o], options={}, spec='echo')"]
        name = {"map_none": "", "map_str": ", name='m'", "map_func": ", name=lambda idx, t: 'f%d' % idx"}[how]
        lines += [f"w.map(tpl, [({src!r}, {a!r}), ({a!r}, {b!r})]{name})"]
    lines += ["if os.environ.get('C19_PROBE'):",
              "    json.dump({t.name: [t.flattened_inputs(), t.flattened_outputs()] for t in w.targets.values()}, open(os.environ['C19_PROBE'], 'w'))"]
    return "\n".join(lines) + "\n"


class RawWorkflow(W.Workflow):
    def __init__(self, src, fname="workflow.py"):
        super().__init__([])
        self.src = src

    def key(self):
        return ("raw", self.src)

    def source(self):
        return self.src


def where_batch(acc, batch):
    for how, wf_wd in batch:
        names = {"target": ("A", "B"), "target_absmix": ("A", "B"), "template": ("A", "B"), "template_wd": ("A", "B"), "map_none": ("tpl_0", "tpl_1"), "map_str": ("m_0", "m_1"), "map_func": ("f0", "f1"), "glob_template_wd": ("A", "B")}[how]
        observations = {}
        for inv in INVOKE:
            objname = "flow" if inv == "objname" else "gwf"
            wf = RawWorkflow(wf_source(how, wf_wd, objname))
            # A's output exists and is fresh, B's is missing: status must be (completed, shouldrun) everywhere
            w0 = W.World(wf, files={"src": (1, "s"), "data/a": (2, "a"), "nested/dir/keep": (1, "k")}, conf={"backend": "slurm"})
            with W.Session(w0) as s:
                other = os.path.join(s.dir, "elsewhere")
                os.makedirs(other, exist_ok=True)
                probe = os.path.join(s.dir, "probe.json")
                if inv == "root":
                    cwd, pre = s.proj, []
                elif inv == "nested":
                    cwd, pre = os.path.join(s.proj, "nested", "dir"), []
                elif inv == "unrelated_abs":
                    cwd, pre = other, ["-f", os.path.join(s.proj, "workflow.py")]
                elif inv == "unrelated_rel":
                    cwd, pre = other, ["-f", "../proj/workflow.py"]
                elif inv == "symlink":
                    # the project is reached through a symlinked directory
                    link = os.path.join(other, "link-to-proj")
                    if not os.path.islink(link):
                        os.symlink(s.proj, link)
                    cwd, pre = other, ["-f", os.path.join(link, "workflow.py")]
                elif inv.startswith("fname_"):
                    # the workflow file has another name (one that starts like the package's own modules, one that is not an identifier)
                    fname = "gwf_pipeline.py" if "_gwf_" in inv else "flow-1.py"
                    os.replace(os.path.join(s.proj, "workflow.py"), os.path.join(s.proj, fname))
                    if inv.endswith("nested"):
                        cwd, pre = os.path.join(s.proj, "nested", "dir"), ["-f", "../../" + fname]
                    else:
                        cwd, pre = other, ["-f", os.path.join(s.proj, fname)]
                else:
                    cwd, pre = s.proj, ["-f", "workflow.py:flow"]
                r1 = s.gwf(pre + ["info"], cwd=cwd, env={"C19_PROBE": probe})
                r2 = s.gwf(pre + ["status"], cwd=cwd)
                acc.extra["invocations"] += 2
                resolved = None
                if os.path.exists(probe):
                    resolved = {n: [[p.replace(os.path.realpath(s.proj), "<proj>").replace(s.proj, "<proj>").replace(s.dir, "<tmp>") for p in lst] for lst in v] for n, v in json.load(open(probe)).items()}
                try:
                    info = {n: (sorted(v["dependencies"]), sorted(v["dependents"])) for n, v in json.loads(r1.stdout).items()}
                except Exception:
                    info = f"exit={r1.exit_code} {r1.err_summary()}".replace(s.proj, "<proj>").replace(s.dir, "<tmp>")
                rows = W.parse_status(r2.stdout) if r2.exit_code == 0 else f"exit={r2.exit_code} {r2.err_summary()}".replace(s.proj, "<proj>").replace(s.dir, "<tmp>")
                gwfdirs = sorted(os.path.relpath(os.path.join(dp, d), s.dir) for dp, dns, _ in os.walk(s.dir) for d in dns if d == ".gwf")
            observations[inv] = dict(resolved=resolved, info=info, rows=rows, gwfdirs=gwfdirs)
        exp = dict(
            resolved={names[0]: [["<proj>/src"], ["<proj>/data/a"]], names[1]: [["<proj>/data/a"], ["<proj>/b"]]},
            info={names[0]: ([], [names[1]]), names[1]: ([names[0]], [])},
            rows={names[0]: "completed", names[1]: "shouldrun"},
            gwfdirs=["proj/.gwf"],
        )
        for inv, obs in observations.items():
            case = dict(kind="where", how=how, wf_wd=wf_wd, invoke=inv)
            acc.case(key=json.dumps(case), outcome=f"{inv}:{'ok' if obs == exp else 'diff'}", sample=case)
            if obs != exp:
                diff = [k for k in exp if obs[k] != exp[k]]
                acc.violation(sig=dict(kind="where", how=how.split("_")[0], invoke=inv, diff=diff[0]), case=case, expected=exp, observed=obs,
                              msg=f"targets made by {how}, workflow working_dir {wf_wd}, gwf invoked {inv}: {diff} differ: {json.dumps({k: obs[k] for k in diff})[:400]}")


# ------------------------------------------------------------------------------------------- commands from elsewhere

CMD_INITS = ("fresh", "built", "half")
CMDS = (["run"], ["run", "B"], ["touch"], ["touch", "B"], ["clean", "-f", "--all"], ["clean", "-f"], ["clean", "-f", "--all", "B"], ["cancel", "-f"], ["logs", "A"], ["info"], ["status", "-f", "summary"])


def cmd_batch(acc, batch):
    """Differential oracle (no hand-written expectation): a command started from a nested sub-directory, or from an unrelated directory
    with -f, leaves exactly the project state and prints exactly the text it does when started from the project root. Decoy files with
    the declared relative names sit under both other directories and must not be touched."""
    from mc import cliworld as CW

    for init, cmd in batch:
        cmd = list(cmd)
        # the workflow file imports a helper module that lives next to it; modules of the same name sit in the other invoking directories
        wf = W.Workflow([W.T("A", ["src"], ["a"], spec="echo A\n"), W.T("B", ["a"], ["out/b"], spec="echo B\n"), W.T("C", ["out/b"], ["c"], spec="echo C\n", protect=["c"])],
                        header="import c19helper\nassert c19helper.WHO == 'project', 'helper module imported from ' + c19helper.WHO")
        files = {"src": (1, "s"), "nested/dir/keep": (1, "k"), "c19helper.py": (1, "WHO = 'project'\n"), "nested/dir/c19helper.py": (1, "WHO = 'the nested invoking directory'\n")}
        if init in ("built", "half"):
            files.update({"a": (2, "a")})
        if init == "built":
            files.update({"out/b": (3, "b"), "c": (4, "c")})
        for p_ in ("src", "a", "out/b", "c"):
            files["nested/dir/" + p_] = (1, "decoy:" + p_)
        hashes = {n: W.sha1(f"echo {n}\n") for n in (("A",) if init == "half" else ("A", "B", "C") if init == "built" else ())}
        w0 = W.World(wf, files=files, conf={"backend": "slurm", "use_spec_hashes": True}, hashes=hashes, logs={"A.stdout": "log of A\n"})
        if init == "half":
            w0, _ = CW.apply_action(w0, ("gwf", ["run", "B"]))
        obs = {}
        for inv in ("root", "nested", "unrelated_rel"):
            with W.Session(w0) as s:
                other = os.path.join(s.dir, "elsewhere")
                os.makedirs(other, exist_ok=True)
                with open(os.path.join(other, "c19helper.py"), "w") as f:
                    f.write("WHO = 'the unrelated invoking directory'\n")
                with open(os.path.join(other, ".gwfconf.json"), "w") as f:  # another project's settings: none of this project's business
                    f.write(json.dumps({"backend": "sge", "use_spec_hashes": False, "verbose": "debug"}))
                for p_ in ("src", "a", "out/b", "c"):
                    os.makedirs(os.path.dirname(os.path.join(other, p_)), exist_ok=True)
                    with open(os.path.join(other, p_), "w") as f:
                        f.write("decoy:" + p_)
                if inv == "root":
                    cwd, pre = s.proj, []
                elif inv == "nested":
                    cwd, pre = os.path.join(s.proj, "nested", "dir"), []
                else:
                    cwd, pre = other, ["-f", "../proj/workflow.py"]
                r = s.gwf(pre + cmd, cwd=cwd, cwd_on_path=True)
                acc.extra["invocations"] += 1
                after = s.snapshot()
                decoys = {p_: (open(os.path.join(other, p_)).read() if os.path.exists(os.path.join(other, p_)) else None) for p_ in ("src", "a", "out/b", "c")}
                stray = sorted(os.path.relpath(os.path.join(dp, d), s.dir) for dp, dns, _ in os.walk(s.dir) for d in dns if d == ".gwf")
                scrub = lambda t: t.replace(os.path.realpath(s.proj), "<proj>").replace(s.proj, "<proj>").replace(s.dir, "<tmp>")
                jobs = [(j["name"], sorted(after.sim["jobs"][d]["name"] for d in j.get("must_wait", []) if d in after.sim["jobs"]), j["state"]) for j in (after.sim["jobs"][i] for i in after.sim["order"])]
                obs[inv] = dict(exit=r.exit_code, exc=r.exc, out=scrub(r.stdout), state=json.loads(scrub(json.dumps(after.semantic(), sort_keys=True, default=str))), jobs=jobs, decoys=decoys, gwfdirs=stray)
        for inv in ("nested", "unrelated_rel"):
            case = dict(kind="cmd", init=init, cmd=cmd, invoke=inv)
            same = obs[inv] == obs["root"]
            acc.case(key=json.dumps(case), outcome=f"{cmd[0]}:{'same' if same else 'diff'}:exit{obs['root']['exit']}", sample=case)
            if not same:
                diff = [k for k in obs["root"] if obs[inv][k] != obs["root"][k]]
                acc.violation(sig=dict(kind="cmd", cmd=cmd[0], invoke=inv, diff=diff[0]), case=case, expected=obs["root"], observed=obs[inv],
                              msg=f"`gwf {' '.join(cmd)}` on the {init} project started from {inv} differs from the same command started in the project root in {diff}: "
                                  f"{json.dumps({k: [obs['root'][k], obs[inv][k]] for k in diff}, default=str)[:500]}")
        if obs["root"]["exc"] or any(v is None or not v.startswith("decoy:") for v in obs["root"]["decoys"].values()):
            acc.violation(sig=dict(kind="cmd", cmd=cmd[0], invoke="root", diff="crash"), case=dict(kind="cmd", init=init, cmd=cmd, invoke="root"), observed=obs["root"], msg=f"`gwf {' '.join(cmd)}` from the root: {obs['root']['exc']}")


# ------------------------------------------------------------------------------------------- names

NAMES = {
    "a": True, "_a": True, "a1": True, "A_b9": True, "Target": True,
    "": False, "1a": False, "a b": False, "a-b": False, "a/b": False, "a\n": False, "\na": False, "a\t": False, " a": False, "a\x00": False, "a\r": False, "a\n\n": False,
    "a.b": None, "é": None, "a.": None, "..": None, ".a": None,
}


def names_batch(acc, batch):
    from gwf import Workflow
    from gwf.core import Target

    for name in batch:
        want = NAMES[name]
        for via in ("Target", "workflow.target", "template"):
            try:
                if via == "Target":
                    Target(name=name, inputs=[], outputs=[], options={}, working_dir="/wd")
                elif via == "workflow.target":
                    Workflow(working_dir="/wd").target(name, inputs=[], outputs=[])
                else:
                    from gwf import AnonymousTarget

                    Workflow(working_dir="/wd").target_from_template(name, AnonymousTarget(inputs=[], outputs=[], options={}))
                got = True
            except Exception as e:
                got = False
            case = dict(kind="names", name=name, via=via)
            acc.case(key=json.dumps(case), outcome=f"name accepted={got}", sample=case)
            if want is not None and got != want:
                acc.violation(sig=dict(kind="names", name=name), case=case, expected=want, observed=got,
                              msg=f"target name {name!r} via {via}: {'accepted' if got else 'rejected'}, must be {'accepted' if want else 'rejected'}")
    # duplicates
    try:
        wf = Workflow(working_dir="/wd")
        wf.target("Dup", inputs=[], outputs=[])
        wf.target("Dup", inputs=[], outputs=[])
        dup = "accepted"
    except Exception:
        dup = "rejected"
    acc.case(key="dup", outcome="dup " + dup)
    if dup != "rejected":
        acc.violation(sig=dict(kind="names", name="<duplicate>"), case=dict(kind="names", name="Dup", via="duplicate"), observed=dup, msg="duplicate target name accepted")


# ------------------------------------------------------------------------------------------- paths


class FsPath:
    def __init__(self, p):
        self.p = p

    def __fspath__(self):
        return self.p


CONTAINERS = {
    "bare": lambda v: v,
    "list": lambda v: [v],
    "nested": lambda v: [["ok1"], [v]],
    "dict": lambda v: {"k": v},
    "dictlist": lambda v: {"k": ["ok2", v]},
    "tuple": lambda v: ("ok3", v),
}


def path_values():
    vals = [("str", "x", True), ("str-dir", "d/x", True), ("str-abs", "/abs/x", True), ("str-space", "with space", True), ("str-unicode", "é", True),
            # characters that mean something to a shell or to os.path helpers mean nothing here: plain file names under the working directory
            ("str-tilde", "~/x", True), ("str-tilde-user", "~root/x", True), ("str-dollar", "$HOME/x", True), ("str-percent", "%s/x", True), ("str-glob", "*.txt", True),
            ("Path-tilde", pathlib.PurePosixPath("~/x"), True),
            ("Path", pathlib.Path("d/x"), True), ("PurePath-abs", pathlib.PurePosixPath("/abs/x"), True), ("fspath", FsPath("d/y"), True),
            ("empty", "", False), ("None", None, False), ("int", 5, False), ("bytes", b"x", False), ("float", 1.5, False)]
    ctrl = [chr(c) for c in range(0, 32)] + ["\x7f"] + [chr(c) for c in range(0x80, 0xA0)]  # Unicode category Cc: C0, DEL and C1
    for ch in ctrl:
        for pos, v in (("start", ch + "x"), ("mid", "x" + ch + "y"), ("end", "x" + ch)):
            vals.append((f"ctrl-{ord(ch):02x}-{pos}", v, False))
    vals.append(("Path-ctrl", pathlib.PurePosixPath("x\ny"), False))
    vals.append(("fspath-ctrl", FsPath("x\ty"), False))
    return vals


def paths_batch(acc, batch):
    from gwf.core import Graph, CachedFilesystem, Target

    for label, value, want in batch:
        for cname, cf in CONTAINERS.items():
            for side in ("inputs", "outputs"):
                kw = dict(inputs=[], outputs=[])
                kw[side] = cf(value)
                detail = None
                try:
                    t = Target(name="T", options={}, working_dir="/wd", **kw)
                    got = True
                    if want:
                        # accepted values must also be usable: resolve to the right absolute path
                        flat = t.flattened_inputs() if side == "inputs" else t.flattened_outputs()
                        exp_leaf = os.fspath(value)
                        exp_abs = exp_leaf if exp_leaf.startswith("/") else "/wd/" + exp_leaf
                        if exp_abs not in flat:
                            detail = f"resolved {flat}, expected to contain {exp_abs}"
                except Exception as e:
                    got = False
                    detail = f"{type(e).__name__}: {str(e)[:80]}"
                case = dict(kind="paths", value=label, container=cname, side=side)
                acc.case(key=json.dumps(case), outcome=f"path accepted={got}", sample=case)
                if got != want or (want and detail):
                    acc.violation(sig=dict(kind="paths", value=label.split("-")[0] if label.startswith("ctrl") else label), case=case, expected=want, observed=dict(accepted=got, detail=detail),
                                  msg=f"{side}={cname}({label}: {value!r}): {'accepted' if got else 'rejected'} ({detail}), must be {'accepted' if want else 'rejected'}")
    # working_dir validation: control characters rejected, ordinary accepted
    for wd, want in (("/wd", True), ("/w d", True), ("/wd\n", False), ("", False)):
        try:
            Target(name="T", inputs=[], outputs=[], options={}, working_dir=wd)
            got = True
        except Exception:
            got = False
        acc.case(key="wd" + repr(wd), outcome=f"wd accepted={got}")
        if got != want:
            acc.violation(sig=dict(kind="paths", value="working_dir"), case=dict(kind="paths", value="working_dir:" + repr(wd), container="-", side="-"), expected=want, observed=got,
                          msg=f"working_dir {wd!r}: accepted={got}, expected {want}")


# ------------------------------------------------------------------------------------------- map


def map_batch(acc, batch):
    from gwf import AnonymousTarget, Workflow

    def tpl(a, b="B", extra=None):
        return AnonymousTarget(inputs=[], outputs=[f"{a}_{b}_{extra}"], options={}, spec="x")

    class Callable:
        def __call__(self, a, b="B", extra=None):
            return tpl(a, b, extra)

    for kind, n, naming, use_extra, callable_kind, *rest in batch:
        container = rest[0] if rest else "list"
        items = {"str": ["s0", "s1", "s2"], "tuple": [("t0", "u0"), ("t1", "u1"), ("t2", "u2")], "dict": [dict(a="d0", b="e0"), dict(a="d1"), dict(a="d2", b="e2")]}[kind][:n]
        # the items may come as any iterable: a list, a tuple, a one-shot iterator or a generator
        wrap = {"list": list, "tuple": tuple, "iter": iter, "generator": (lambda xs: (x for x in xs)), "dictkeys": (lambda xs: {x: None for x in xs}.keys())}[container]
        func = tpl if callable_kind == "function" else Callable()
        name = {"none": None, "string": "pre", "function": (lambda idx, t: f"n{idx}_{len(t.outputs)}"), "function_dup": (lambda idx, t: "same")}[naming]
        runs = []
        for _rep in range(2):
            wf = Workflow(working_dir="/wd")
            try:
                res = wf.map(func, wrap(items), extra={"extra": "X"} if use_extra else None, name=name)
                runs.append(([t.name for t in res], sorted(wf.targets), [t.outputs for t in res]))
            except Exception as e:
                runs.append(f"{type(e).__name__}: {e}")
        case = dict(kind="map", items=kind, n=n, naming=naming, extra=use_extra, callable=callable_kind, container=container)
        problems = []
        if naming == "function_dup":
            # a naming function that gives two items the same name: names must be unique, so the definition must be rejected
            # (never a workflow with fewer targets than items)
            if n >= 2 and not isinstance(runs[0], str):
                problems.append(f"duplicate names accepted: {runs[0][0]} for {n} items, workflow has {runs[0][1]}")
        elif isinstance(runs[0], str):
            problems.append(runs[0])
        else:
            names, all_names, outs = runs[0]
            if len(names) != n or len(set(names)) != n or sorted(names) != all_names:
                problems.append(f"names {names} for {n} items (workflow has {all_names})")
            if runs[0] != runs[1]:
                problems.append("two runs differ")
            base = "tpl" if callable_kind == "function" else "Callable"
            exp_names = {"none": [f"{base}_{i}" for i in range(n)], "string": [f"pre_{i}" for i in range(n)], "function": [f"n{i}_1" for i in range(n)]}.get(naming)
            if exp_names is None:
                exp_names = names
            if names != exp_names:
                problems.append(f"names {names} expected {exp_names}")
            exp_outs = []
            for it in items:
                a, b = (it, "B") if kind == "str" else (it if kind == "tuple" else (it["a"], it.get("b", "B")))
                exp_outs.append([f"{a}_{b}_{'X' if use_extra else None}"])
            if outs != exp_outs:
                problems.append(f"outputs {outs} expected {exp_outs}")
        acc.case(key=json.dumps(case), outcome=f"map n={n} ok={not problems}", sample=case)
        if problems:
            acc.violation(sig=dict(kind="map", naming=naming), case=case, observed=problems, msg=f"map over {n} {kind} items naming={naming}: {problems}")


def run(ctx):
    import mc.checks.c19 as me

    ctx.pmap(me, "where_batch", [(h, w) for h in HOWS for w in WF_WDS], chunk=1)
    ctx.pmap(me, "cmd_batch", [(i, c) for i in CMD_INITS for c in CMDS], chunk=2)
    ctx.pmap(me, "names_batch", list(NAMES), chunk=4)
    ctx.pmap(me, "paths_batch", path_values(), chunk=8)
    ctx.pmap(me, "map_batch", [(k, n, nm, ex, ck, cont) for k in ("str", "tuple", "dict") for n in range(0, 4) for nm in ("none", "string", "function", "function_dup") for ex in (False, True)
                               for ck in ("function", "instance") for cont in ("list", "tuple", "iter", "generator", "dictkeys") if not (cont == "dictkeys" and k == "dict")], chunk=16)
    ctx.rule = "where: (creation way, workflow working_dir, invoking directory); cmd: (initial project state, command, invoking directory) compared with the same command from the project root; names: (name, entry point); paths: (value, container, side); map: (item kind, n, naming, extra, callable kind, iterable kind)"
    ctx.bound = dict(hows=len(HOWS), wf_wds=len(WF_WDS), invoke=len(INVOKE), cmd_inits=list(CMD_INITS), cmds=len(CMDS), names=len(NAMES), path_values=len(path_values()), containers=len(CONTAINERS))
    ctx.assumptions = ["dotted / non-ASCII names are not demanded either way ('identifier-like')", "in-process invocation with os.chdir per case (fresh-process tier: see DESIGN §3.7)"]


def replay(case):
    from mc.runner import Acc

    acc = Acc()
    k = case["kind"]
    if k == "where":
        where_batch(acc, [(case["how"], case["wf_wd"])])
        return [v for v in acc.violations if v["case"]["invoke"] == case["invoke"]]
    if k == "cmd":
        cmd_batch(acc, [(case["init"], case["cmd"])])
        return [v for v in acc.violations if v["case"]["invoke"] == case["invoke"]]
    if k == "names":
        names_batch(acc, [case["name"]] if case["name"] in NAMES else [])
        return [v for v in acc.violations if v["case"].get("via") == case.get("via")]
    if k == "paths":
        vals = [v for v in path_values() if v[0] == case["value"]]
        paths_batch(acc, vals)
        return [v for v in acc.violations if v["case"]["container"] == case["container"] and v["case"]["side"] == case["side"]] or acc.violations[:1]
    map_batch(acc, [(case["items"], case["n"], case["naming"], case["extra"], case["callable"], case.get("container", "list"))])
    return acc.violations
