"""Function-level harness helpers around the real gwf objects (imported from $VERIF_REPO/src)."""
import itertools
import os

from gwf.backends.base import BackendStatus, TrackingBackend
from gwf.core import CachedFilesystem, FileSpecHashes, Graph, NoopSpecHashes, Status, Target, hash_spec

WD = "/wd"  # virtual working directory for function-level cases (never touched on disk: fs is pre-filled)

BSTATES = ("unknown", "submitted", "running", "completed", "failed", "cancelled")
BS = {
    "unknown": BackendStatus.UNKNOWN,
    "submitted": BackendStatus.SUBMITTED,
    "running": BackendStatus.RUNNING,
    "completed": BackendStatus.COMPLETED,
    "failed": BackendStatus.FAILED,
    "cancelled": BackendStatus.CANCELLED,
}


def mk_target(name, inputs, outputs, working_dir=WD, spec="", options=None, protect=None):
    return Target(
        name=name,
        inputs=inputs,
        outputs=outputs,
        options=options or {},
        working_dir=working_dir,
        spec=spec,
        protect=protect or set(),
    )


class StrictFS(CachedFilesystem):
    """CachedFilesystem pre-filled from a dict; a lookup outside the dict is a harness error (we never
    want a function-level case to stat the real disk)."""


MTIME_BASE, MTIME_STEP = 1_500_000_000.0, 0.25


def mk_fs(files, universe):
    """files: abs path -> mtime; universe: all abs paths of the case (missing ones cached as None)."""
    cache = {p: None for p in universe}
    # quarter-second spacing: ranks 1,2,3 all fall into one whole second (a truncating comparison would merge them)
    cache.update({p: MTIME_BASE + MTIME_STEP * float(m) for p, m in files.items()})
    return CachedFilesystem(cache=cache)


class RecOps:
    """Recording scheduler ops for TrackingBackend: fresh ids, journal of submissions and cancels."""

    target_defaults = {}

    def __init__(self, states=None, prefix="n"):
        self.states = states or {}
        self.journal = []
        self.counter = itertools.count(1)
        self.prefix = prefix
        self.closed = 0

    def get_job_states(self, tracked_jobs):
        self.journal.append(("query", tuple(tracked_jobs)))
        return {j: s for j, s in self.states.items() if j in tracked_jobs}

    def submit_target(self, target, dependency_ids):
        jid = f"{self.prefix}{next(self.counter)}"
        self.journal.append(("submit", target.name, tuple(dependency_ids), jid))
        return jid

    def cancel_job(self, job_id):
        self.journal.append(("cancel", job_id))

    def close(self):
        self.closed += 1


def tracked_for(bstates):
    """bstates: name -> state word. A target with a backend state other than 'unknown' gets a tracked id
    'o<k>' whose scheduler state is that word; 'unknown' targets are alternately untracked or tracked with
    an id the scheduler no longer knows."""
    tracked, states = {}, {}
    for k, (name, st) in enumerate(sorted(bstates.items())):
        if st == "unknown":
            if k % 2:
                tracked[name] = f"o{k}"
            continue
        tracked[name] = f"o{k}"
        states[f"o{k}"] = BS[st]
    return tracked, states


def write_tracked(state_dir, tracked, name="rec"):
    import json

    os.makedirs(os.path.join(state_dir, ".gwf"), exist_ok=True)
    path = os.path.join(state_dir, ".gwf", f"{name}-backend-tracked.json")
    if tracked:
        with open(path, "w") as f:
            json.dump(tracked, f)
    elif os.path.exists(path):
        os.remove(path)
    return path


def open_backend(state_dir, states, prefix="n", name="rec"):
    """Real TrackingBackend (reads the tracked file itself) over recording ops."""
    ops = RecOps(states, prefix=prefix)
    return TrackingBackend(working_dir=state_dir, name=name, ops=ops), ops


def mk_backend(state_dir, bstates, prefix="n"):
    tracked, states = tracked_for(bstates)
    write_tracked(state_dir, tracked)
    be, ops = open_backend(state_dir, states, prefix)
    return be, ops, tracked


def read_tracked(state_dir, name="rec"):
    import json

    path = os.path.join(state_dir, ".gwf", f"{name}-backend-tracked.json")
    try:
        with open(path) as f:
            return json.load(f)
    except FileNotFoundError:
        return {}


def mk_hashes(hstates, specs):
    """hstates: None or name -> 'same'|'diff'|'none'. Uses the real FileSpecHashes with an in-memory map."""
    if hstates is None:
        return NoopSpecHashes()
    sh = FileSpecHashes(path="/nonexistent-gwf-mc/spec-hashes.json")
    for n, st in hstates.items():
        if st == "same":
            sh.hashes[n] = hash_spec(specs[n])
        elif st == "diff":
            sh.hashes[n] = hash_spec(specs[n] + "#old")
    return sh


def status_word(s):
    return s.name.lower()
