"""Silence + determinism self-test: every quick check from a fresh process under several VERIF_SEED values must exit 0, print no
VIOLATION line and report identical coverage counts (the seed may only permute the order of work).
usage: python -m mc.seedcheck [IDs...]   -> writes /verif/selftest_seeds.json"""
import json
import os
import subprocess
import sys
import time

VERIF = os.path.dirname(os.path.dirname(os.path.abspath(__file__)))
SEEDS = tuple(int(x) for x in os.environ.get("VERIF_SEEDCHECK_SEEDS", "0,1,7").split(","))
COUNT_KEYS = ("evaluations", "distinct_nontrivial", "states", "transitions", "distinct_outcomes")


def main():
    ids = sys.argv[1:] or [f"C{i:02d}" for i in range(1, 21)]
    report = {}
    ok_all = True
    for cid in ids:
        rows = []
        for seed in SEEDS:
            t0 = time.time()
            r = subprocess.run([os.path.join(VERIF, "check"), cid, "--tier", "quick"], capture_output=True, text=True, env=dict(os.environ, VERIF_SEED=str(seed)), cwd=VERIF)
            ev = json.load(open(os.path.join(VERIF, "evidence", cid + ".json")))
            cov = ev["coverage"]
            rows.append(dict(seed=seed, exit=r.returncode, violation_lines=sum(1 for l in r.stdout.splitlines() if l.startswith("VIOLATION")), wall=round(time.time() - t0, 1),
                             counts={k: cov.get(k) for k in COUNT_KEYS}))
        same = all(row["counts"] == rows[0]["counts"] for row in rows)
        quiet = all(row["exit"] == 0 and row["violation_lines"] == 0 for row in rows)
        report[cid] = dict(runs=rows, identical_counts=same, silent=quiet)
        ok_all &= same and quiet
        print(cid, "silent" if quiet else "NOT SILENT", "identical" if same else "COUNTS DIFFER", [row["wall"] for row in rows], flush=True)
        if not same:
            print("   ", [row["counts"] for row in rows])
    json.dump(report, open(os.path.join(VERIF, "selftest_seeds.json"), "w"), indent=1)
    return 0 if ok_all else 1


if __name__ == "__main__":
    sys.exit(main())
