"""Run every own mutant (mutants/*.patch) against the checks expected to catch it and write mutants/RESULTS.json."""
import json
import os
import re
import subprocess
import sys

VERIF = os.path.dirname(os.path.dirname(os.path.abspath(__file__)))
EXPECT = {
    "c11_first_completed": ["C13", "C11"],
    "d1_empty_outputs": ["C01"], "d2_abs_not_normalised": ["C03", "C15", "C04"], "d4_summary_empty": ["C05"], "d5_sge_newline": ["C08", "C06", "C07", "C17"],
    "d6_lsf_prov": ["C08"], "d12_release_without_acquire": ["C12"], "d13_unexpected_error_nonfinal": ["C13", "C14"], "d13b_kill_exited": ["C13"], "d15_cancel_unknown": ["C17"],
}


def main():
    res = {}
    only = sys.argv[1:]
    for f in sorted(os.listdir(os.path.join(VERIF, "mutants"))):
        if not f.endswith(".patch"):
            continue
        name = f[:-6]
        if only and name not in only:
            continue
        m2 = re.match(r"revert_c(\d+)_", name)
        checks = EXPECT.get(name) or (["C" + m2.group(1)] if m2 else ["C" + re.match(r"c(\d+)_", name).group(1)])
        r = subprocess.run(["/venv/bin/python", "-m", "mc.selftest", "--tests", os.path.join(VERIF, "mutants", f)] + checks, capture_output=True, text=True,
                           env=dict(os.environ, PYTHONPATH=VERIF), cwd=VERIF)
        suite = next((l for l in r.stdout.splitlines() if l.startswith("baseline suite")), "")
        det = {}
        for l in r.stdout.splitlines():
            m = re.match(r"(C\d+): exit=(\S+) violations=(\d+)", l)
            if m:
                det[m.group(1)] = dict(exit=m.group(2), violations=int(m.group(3)))
        if "PATCH DOES NOT APPLY" in r.stdout:
            det = "patch no longer applies to /repo HEAD"
        res[name] = dict(suite=suite.replace("baseline suite on mutant: ", ""), checks=det)
        print(name, res[name], flush=True)
    out = os.path.join(VERIF, "mutants", "RESULTS.json")
    old = json.load(open(out)) if os.path.exists(out) and only else {}
    old.update(res)
    json.dump(old, open(out, "w"), indent=1, sort_keys=True)


if __name__ == "__main__":
    main()
