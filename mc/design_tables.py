"""Regenerate the detection tables of DESIGN.md §12 from seeded/*/meta.json and mutants/RESULTS.json."""
import glob
import json
import os
import re

VERIF = os.path.dirname(os.path.dirname(os.path.abspath(__file__)))

NOTES = {
    "C01-s2": "first missed by C01 (caught by C18, C05): C01's CLI part now checks that a dry run between two `status` calls changes nothing",
    "C02-s1": "C07 first missed it: shortcut-edge workflow added to C07/C16",
    "C03-s1": "first missed: absolute-but-unnormalised working directories added to C03",
    "C07-s2": "first missed (local backend not yet in CLI worlds): led to mc/localbridge.py; caught by the enqueue-deps check",
    "C11-s2": "first missed: a negative return code (death by an outside signal) added to the exit-code alphabet",
    "C12-s2": "first missed: a process that only got SIGTERM now counts as live",
    "C16-s1": "first missed: shortcut-edge workflows added to C16",
    "C17-s2": "first missed (masked by the broad D7 signature): lost cancels are now judged on the pool's true table and the known-finding signatures were narrowed",
    "C14-s1": "makes the server spin without yielding: reported through the watchdog",
}


def main():
    lines = ["", "**Seeded by sub-agents** (`seeded/<name>/{patch.diff, demo.py, meta.json}`):", "", "| seed | breaks | what it changes (agent's summary, shortened) | quick checks that report it |", "|---|---|---|---|"]
    for d in sorted(glob.glob(os.path.join(VERIF, "seeded", "*"))):
        mp = os.path.join(d, "meta.json")
        if not os.path.exists(mp):
            continue
        m = json.load(open(mp))
        notes = (m.get("needs_to_manifest") or "").strip().replace("|", "/")
        first = re.sub(r"\s+", " ", notes)[:170]
        det = ", ".join(m.get("detected_by") or []) or "**none**"
        extra = NOTES.get(m["name"])
        lines.append(f"| {m['name']} | {m['property']} | {first}… | {det}{' — ' + extra if extra else ''} |")
    rp = os.path.join(VERIF, "mutants", "RESULTS.json")
    if os.path.exists(rp):
        res = json.load(open(rp))
        lines += ["", "**Own mutants** (`mutants/*.patch`, results of `python -m mc.mutant_matrix` in `mutants/RESULTS.json`):", "", "| mutant | baseline suite | detected by (exit 1 + VIOLATION) | not detected by |", "|---|---|---|---|"]
        for name, r in sorted(res.items()):
            if isinstance(r["checks"], str):
                lines.append(f"| {name} | – | {r['checks']} | |")
                continue
            yes = [c for c, v in r["checks"].items() if v["exit"] == "1" and v["violations"]]
            no = [c for c, v in r["checks"].items() if c not in yes]
            lines.append(f"| {name} | {r['suite']} | {', '.join(yes) or '**none**'} | {', '.join(no)} |")
    block = "\n".join(lines) + "\n"
    p = os.path.join(VERIF, "DESIGN.md")
    s = open(p).read()
    s = re.sub(r"<!-- DETECTION:BEGIN -->.*<!-- DETECTION:END -->", "<!-- DETECTION:BEGIN -->\n" + block.replace("\\", "\\\\") + "<!-- DETECTION:END -->", s, flags=re.S)
    kf = json.load(open(os.path.join(VERIF, "known_findings.json")))
    kl = ["", "| id | property | signature (must match exactly) | what fails |", "|---|---|---|---|"]
    for f in kf["findings"]:
        kl.append(f"| {f['id']} | {f['property']} | `{json.dumps(f['match'], sort_keys=True)}` | {f['what'].replace('|', '/')} |")
    kl.append("")
    kl.append(f"{len(kf['fixed'])} `fixed:` entries record the repaired defects (one `fix:` commit each); they suppress nothing.")
    s = re.sub(r"<!-- KNOWN:BEGIN -->.*<!-- KNOWN:END -->", lambda m: "<!-- KNOWN:BEGIN -->\n" + "\n".join(kl) + "\n<!-- KNOWN:END -->", s, flags=re.S)
    open(p, "w").write(s)
    print("seeds:", len(glob.glob(os.path.join(VERIF, "seeded", "*"))), "mutants:", len(json.load(open(rp))) if os.path.exists(rp) else 0)


if __name__ == "__main__":
    main()
