"""Regenerate the detection tables of DESIGN.md §12 from seeded/*/meta.json and mutants/RESULTS.json."""
import glob
import json
import os
import re

VERIF = os.path.dirname(os.path.dirname(os.path.abspath(__file__)))

NOTES = {
    "C01-s2": "first missed by C01 (caught by C18, C05): C01's CLI part now checks that a dry run between two `status` calls changes nothing",
    "C02-s1": "C07 first missed it: shortcut-edge workflow added to C07/C16",
    "C03-s1": "first missed: absolute-but-unnormalised working directories added to C03",
    "C07-s2": "first missed (local backend not yet in CLI worlds): led to mc/localbridge.py; caught by the enqueue-deps check",
    "C11-s2": "first missed: a negative return code (death by an outside signal) added to the exit-code alphabet",
    "C12-s2": "first missed: a process that only got SIGTERM now counts as live",
    "C16-s1": "first missed: shortcut-edge workflows added to C16",
    "C17-s2": "first missed (masked by the broad D7 signature): lost cancels are now judged on the pool's true table and the known-finding signatures were narrowed",
    "C14-s1": "makes the server spin without yielding: reported through the watchdog",
    "C09-s3": "first missed: in-run duplicate check and accounting-off scenarios added to C09",
    "C10-s2": "first missed: an unopenable log path is now an observation, falsy option values added",
    "C19-s2": "first missed: project reached through a symlinked directory + absolute/relative mix added",
    "C14-s4": "first missed: H polls twice after M's enqueue (stale answers become visible)",
    "C20-s2": "first missed: key names that are prefixes of each other added to the C20 alphabet",
    "C02-s3": "first missed: C02 got a CLI sub-bound (the real `gwf run <selection>` incl. a pattern matching nothing)",
    "C01-s4": "first missed: non-sequence containers (dict views, UserDict, mappingproxy, re-iterables) added",
    "C11-s4": "first missed: scenarios are resampled under shifted heaps when the code under test is not a function of the schedule",
    "C18-s3": "first missed: C18 judges 'enabled' by the user's last `config set`, not by what gwf reads back",
    "C19-s3": "first missed: naming function that returns the same name for two items (must be rejected)",
    "C15-s4": "first missed: a declared output that is a symlink to an unrelated file",
    "C04-s3": "first missed, then reported through the watchdog (graph building never returns): reconvergent layered DAGs with exponential path counts added",
    "C04-s4": "first missed: stale logs of removed targets in the CLI family (ill-formed workflows must change nothing)",
    "C04-s5": "first missed: every definition order of every target set",
    "C04-s6": "first missed: real-file-system input kinds family (file, directory, symlinks, dangling)",
    "C03-s4": "first missed: `gwf info NAME...` added to C03",
    "C03-s5": "first missed: trailing-slash spelling added (9 spellings)",
    "C03-s6": "first missed: Mapping types that are not dict (UserDict, mappingproxy)",
    "C17-s3": "first missed: scheduler command failing with empty stderr added as a fault kind; the failure report of `gwf cancel` is judged on content, not wording",
    "C08-s5": "first missed: requeued jobs (same id runs again) added as a simulator step and initial prefix; private files under .gwf are carried through world snapshots",
    "C08-s6": "first missed: sacct must still be consulted when squeue fails",
    "C06-s5": "first missed: shortcut workflow added to C06",
    "C09-s5": "first missed: crash point right after the rename that publishes a state file",
    "C09-s6": "first missed: write faults (ENOSPC at the k-th open-for-writing, incl. script copies)",
    "C12-s5": "first missed: per-task log failures followed by more ready tasks than cores; capacity probe at every horizon",
    "C15-s6": "first missed: commands started from a sub-directory / with -f (decoy files of the same relative names)",
    "C14-s5": "first found only by the socket tier, whose case did not replay alone (a pool is not reset between sequences): the case now carries the pool's history; the virtual tier got unstartable tasks + the capacity probe",
    "C14-s6": "first missed: float ids in the M alphabet, task_state answers validated, final-state oracle applied to C14 scenarios",
    "C11-s5": "C11 first missed it (C13 caught it): a dependent starting after its dependency was cancelled while unfinished is now a C11 violation whatever the final state says",
    "C11-s6": "C11 first missed it (C13 caught it): log-failure scenario with a dependent",
    "C20-s5": "first missed: global options (-b, -v, --no-color) combined with config set/unset/get",
    "C20-s6": "first missed: the accounting check was vacuous without a tracked job — now `status` after `run`, calibrated against accounting on",
    "C01-s7": "C01 first missed it (C18, C09 caught it): a rejected submission between two `status` calls",
    "C04-s8": "C04 first missed it (C03 caught it): relative `..` spellings",
    "C17-s5": "C17 first missed it (C13 caught it): any change to a non-selected, non-downstream task during `gwf cancel` is collateral",
    "C18-s6": "first missed: reference and code shared gwf's hash function — new family judges 'differs' on the spec text gwf holds (15 white-space/case variants, all pairs)",
    "C05-s7": "C05 first missed it (C02 caught it): shortcut workflow added to C05",
    "C05-s8": "C18 first missed it (C05 caught it): a failing job added to the C18 alphabet",
    "C19-s5": "first missed: items handed to map() as iterator / generator / tuple / dict keys",
    "C19-s6": "first missed: C1 control characters (U+0080–U+009F)",
    "C13-s7": "first a harness error (the change polls the real clock inside the virtual loop, the real-tier case did not replay under load): the loop now owns `time` inside gwf.backends.local; process groups got SIGTERM-immune members (virtual tier) and a `trap '' TERM` script (real tier)",
    "C03-s7": "first missed: working directory reached through a symbolic link (on disk)",
    "C03-s8": "first missed: two file names that differ only in Unicode normal form are two files",
    "C09-s7": "first missed: a successful bsub whose answer is surrounded by lines of a site's submission filter",
    "C16-s7": "first missed: re-stamping now keeps times a program chose explicitly (its own clock) apart from kernel 'now' events",
    "C16-s8": "first missed: re-stamping only what was really stamped (a link touched without following leaves its target alone); symlinked outputs family in C16",
    "C06-s8": "C06 first missed it (C01 caught it): jobs that give outputs the time stamp of their newest input (ties)",
    "C02-s7": "C07 first missed it (C02 caught it): workflow written top-down (dependents defined first); C07 replay of a failing run fixed",
    "C20-s7": "first missed: float-looking text (1.10, 1e3, .50, nan, Infinity) in the value alphabet",
    "C17-s8": "first missed: one target selected twice (overlapping patterns, same name twice)",
    "C11-s8": "C11 first missed it (C14 caught it): a task depending on an id the pool never issued (a number; the string form of a live id) must never start",
    "C15-s7": "first missed: a declared output that is a directory with other files inside",
    "C14-s8": "first missed: a client that asks and never reads (virtual: drain() never returns; socket tier: flood without reading)",
    "C19-s7": "first missed: workflow files with other names (`gwf_pipeline.py`, `flow-1.py`) given with -f",
    "C19-s8": "C03 first missed it (C19 caught it): path objects that are not pathlib paths as a container shape in C03",
    "C01-s9": "C01 first missed it (C06, C18 caught it): two-target CLI family with every recorded-hash combination, run, jobs succeed, status, second run",
    "C01-s10": "first missed: modification times around the epoch (a file dated exactly 0, or before 1970)",
    "C10-s10": "first missed: walltime/memory given as bare numbers (a reformatting that keeps the scheduler's reading of the number is accepted, one that changes it is not)",
    "C03-s9": "detected; one earlier run ended in a harness error under load (replay), not reproducible since",
    "C03-s10": "first missed: a working directory that is (or resolves to) the file-system root",
    "C04-s9": "reported through the watchdog (graph building does not return on reconvergent layers)",
    "C04-s10": "C04 first missed it (C03 caught it): NFC/NFD file names in the C04 file pool",
    "C02-s10": "changes only what `run --dry-run` announces — that is C05's property (status/dry-run/run agree), and C05 reports it; C02 is about real runs",
    "C05-s9": "first missed: BFS also from a project built by jobs the scheduler still remembers as completed",
    "C06-s10": "a path-aliasing defect (C03 reports it); C06's workflows spell every file one way",
    "C13-s10": "C13 first missed it (C14 caught it): process creation failing with a ValueError (NUL in the script), not only with an OSError",
    "C14-s9": "first a harness error: the change awaits `run_in_executor`, whose real worker thread woke the virtual loop from outside (`deque mutated during iteration`). The virtual loop now runs executor functions inline with the result delivered one iteration later — then reported (duplicate ids)",
    "C14-s10": "first missed: an enqueue and a state query in one write; every task_states answer must contain every id acknowledged before it was written",
    "C11-s10": "C11 first missed it (C13 caught it): real-process tier now gives the cancelled / timed-out task a dependent that must never run; a dependent starting after the pool killed its dependency is a C11 violation whatever the shell returned",
    "C09-s9": "C09 first missed it (C07 caught it): scenarios whose first target already has a failed job from an earlier invocation",
    "C09-s10": "first missed: files opened with mode 'x' were not seen as writes by the file hooks, so the crash points inside that write were missing",
    "C07-s10": "a defect of the local pool's own dependency wait (C11 reports it); C07's local part checks what gwf asks the pool for",
    "C10-s11": "first missed: a pipeline whose first stage fails (succeeds in bash without pipefail) in the spec-line alphabet",
    "C10-s12": "first missed: SGE memory with upper-case units",
    "C19-s9": "first missed: the workflow file imports a helper module that lives next to it, same-named modules in the other invoking directories, invoking directory on sys.path (as under `python -m`)",
    "C20-s9": "first missed: the project sits below a directory that has a configuration file of its own",
    "C05-s11": "first missed: several name patterns combined with -s / --endpoints filters",
    "C05-s12": "C05 first missed it (C10 caught it): initial worlds carry log files of a target removed from the workflow — a preview must leave them",
    "C02-s11": "first missed by C02 and C09: the scheduler rejects the k-th submission (C02: nothing downstream of the rejected target is submitted; C09: what the interrupted run did submit names the right prerequisites)",
    "C02-s12": "changes what a dry run does to the hash file — first reported only by C05 and C18; C02 now has a preview-differential family (the real run after any prefix of previews submits what it submits without them, hashing on) and reports it itself",
    "C02-s14": "C02 first missed it (C08 caught it): Slurm reports a user-cancelled job as `CANCELLED by <uid>`; C02 now has a CLI history family (run, dependencies complete, X's outputs written, X cancelled/failed/timed out, forgotten by squeue, run again) against the reference plan",
    "C12-s13": "adds a `cores` option to the pool protocol; reported through the CLI-level local family (the pool answers with something gwf cannot decode)",
    "C13-s12": "first missed: the pool is shut down (Scheduler.shutdown) while one task runs, one waits for a core and one waits for a dependency",
    "C01-s11": "first missed: real files dated far in the future through the CLI (the function-level family pre-fills the cache and never stats)",
    "C04-s11": "C04 first missed it (C01 caught it): a source file dated exactly the epoch / before it among the real-file-system input kinds",
    "C03-s11": "corrupts `graph.endpoints()` from inside `schedule()` (reads the defaultdict `dependents`): C05 reports it through `status --endpoints`; C03 examines the graph as built",
    "C03-s12": "first missed: targets whose containers are filled in place after the target was created and asked once for its files",
    "C16-s11": "first a harness error: the change touches files from a thread pool, the violation found did not replay. Violations that were observed but do not reproduce alone are now reported (exit 1) with a note, after up to ten replays of several recorded cases",
    "C16-s12": "C16 first missed it (C18 caught it): hash file in which only the first target's record is out of date",
    "C18-s11": "C18 first missed it (C15 caught it): workflow in which every output of one target is protected (clean deletes nothing and still forgets the record)",
    "C20-s11": "first missed: two projects sharing one workflow.py through a symbolic link (configuration and .gwf belong to the project, not to the shared file's directory)",
    "C15-s12": "first missed: protect entries added to the target after it was created",
    "C14-s11": "C14 first missed it (C17, C13, C11 caught it): M enqueues a task that waits for H's first task and cancels it again",
    "C14-s12": "first missed: per-id state query for another client's (the first) task",
    "C12-s11": "first missed (the change adds a per-task `cores` request to the local backend and releases more than it took; the pool explorer drives `enqueue_task` with today's signature): C12 got a CLI-level family — four targets asking for more cores than the pool has, run through the real Client on the bridged pool, every exit order, three rounds, with a bound on the processes alive at once",
    "C19-s11": "first missed: inputs found with Workflow.glob / iglob handed to template targets with a working directory of their own",
    "C19-s12": "C19 first missed it (C03 caught it): `~`, `$`, `%`, `*` in declared paths are plain characters (C19 path values; C03 `tilde` family)",
    "C01-s6": "C01 first missed it (C18 caught it): the two-target CLI family now also edits T's script while its job is queued and runs gwf once more before the jobs finish",
    "C13-s14": "first missed: task output that is not valid UTF-8",
    "C14-s13": "first a harness error (the socket tier did not expect its own connection to be refused); now reported",
    "C14-s14": "first missed: an enqueue and the cancel of the id it is going to get in one write",
    "C10-s14": "a value-coercion defect of `gwf config set` (C20 reports it: the file holds 'false' as text)",
    "C03-s14": "first missed: the same raw relative spelling for two different files from two working directories (third pool file renamed)",
    "C16-s13": "first a harness error (`os.utime(fd)` journals a descriptor, not a path), then missed: directory outputs in C16 (`dir` family); the journal resolves descriptors",
    "C16-s14": "C16 first missed it (C05 caught it): a selection pattern that uses only a character class",
    "C19-s14": "C19 first missed it (C20 caught it): another project's configuration file in the unrelated invoking directory",
    "C06-s6": "C06 first missed it (C18 caught it): a run restricted to one cone must leave the status of every target outside it as it was (selection + hashing config in the quick tier)",
    "C07-s5": "a defect of the local pool's own dependency check (C11 reports it)",
    "C07-s8": "first missed: the scheduler moves while gwf is submitting (one environment step before the k-th scheduler command of a run)",
}


def main():
    lines = ["", "**Seeded by sub-agents** (`seeded/<name>/{patch.diff, demo.py, meta.json}`):", "", "| seed | breaks | what it changes (agent's summary, shortened) | quick checks that report it |", "|---|---|---|---|"]
    for d in sorted(glob.glob(os.path.join(VERIF, "seeded", "*"))):
        mp = os.path.join(d, "meta.json")
        if not os.path.exists(mp):
            continue
        m = json.load(open(mp))
        notes = (m.get("needs_to_manifest") or "").strip().replace("|", "/")
        first = re.sub(r"\s+", " ", notes)[:170]
        det = ", ".join(m.get("detected_by") or []) or "**none**"
        extra = NOTES.get(m["name"])
        lines.append(f"| {m['name']} | {m['property']} | {first}… | {det}{' — ' + extra if extra else ''} |")
    rp = os.path.join(VERIF, "mutants", "RESULTS.json")
    if os.path.exists(rp):
        res = json.load(open(rp))
        lines += ["", "**Own mutants** (`mutants/*.patch`, results of `python -m mc.mutant_matrix` in `mutants/RESULTS.json`):", "", "| mutant | baseline suite | detected by (exit 1 + VIOLATION) | not detected by |", "|---|---|---|---|"]
        for name, r in sorted(res.items()):
            if isinstance(r["checks"], str):
                lines.append(f"| {name} | – | {r['checks']} | |")
                continue
            yes = [c for c, v in r["checks"].items() if v["exit"] == "1" and v["violations"]]
            no = [c for c, v in r["checks"].items() if c not in yes]
            lines.append(f"| {name} | {r['suite']} | {', '.join(yes) or '**none**'} | {', '.join(no)} |")
    block = "\n".join(lines) + "\n"
    p = os.path.join(VERIF, "DESIGN.md")
    s = open(p).read()
    s = re.sub(r"<!-- DETECTION:BEGIN -->.*<!-- DETECTION:END -->", "<!-- DETECTION:BEGIN -->\n" + block.replace("\\", "\\\\") + "<!-- DETECTION:END -->", s, flags=re.S)
    kf = json.load(open(os.path.join(VERIF, "known_findings.json")))
    kl = ["", "| id | property | signature (must match exactly) | what fails |", "|---|---|---|---|"]
    for f in kf["findings"]:
        kl.append(f"| {f['id']} | {f['property']} | `{json.dumps(f['match'], sort_keys=True)}` | {f['what'].replace('|', '/')} |")
    kl.append("")
    kl.append(f"{len(kf['fixed'])} `fixed:` entries record the repaired defects (one `fix:` commit each); they suppress nothing.")
    s = re.sub(r"<!-- KNOWN:BEGIN -->.*<!-- KNOWN:END -->", lambda m: "<!-- KNOWN:BEGIN -->\n" + "\n".join(kl) + "\n<!-- KNOWN:END -->", s, flags=re.S)
    # measured sizes: quick figures from the evidence files as they stand, thorough wall times from thorough_times.json (copied from the
    # log of the last complete thorough sweep)
    tt = {}
    tp = os.path.join(VERIF, "thorough_times.json")
    if os.path.exists(tp):
        tt = json.load(open(tp))
    rows = ["", "| id | quick: wall (16 cores) | quick: cases / states / transitions | thorough: wall, cases |", "|---|---|---|---|"]
    for i in range(1, 21):
        cid = f"C{i:02d}"
        ep = os.path.join(VERIF, "evidence", cid + ".json")
        if not os.path.exists(ep):
            continue
        e = json.load(open(ep))
        c = e["coverage"]
        parts = [f"{c.get('evaluations')} evaluations"]
        if c.get("states"):
            parts.append(f"{c['states']} states")
        if c.get("transitions"):
            parts.append(f"{c['transitions']} transitions")
        t = tt.get(cid, {})
        rows.append(f"| {cid} | {e.get('wall_s')} s ({e.get('tier')}) | {' / '.join(parts)} | {t.get('wall', '–')} s, {t.get('evaluations', '–')} evaluations |")
    s = re.sub(r"<!-- SIZES:BEGIN -->.*<!-- SIZES:END -->", lambda m: "<!-- SIZES:BEGIN -->\n" + "\n".join(rows) + "\n<!-- SIZES:END -->", s, flags=re.S)
    open(p, "w").write(s)
    print("seeds:", len(glob.glob(os.path.join(VERIF, "seeded", "*"))), "mutants:", len(json.load(open(rp))) if os.path.exists(rp) else 0)


if __name__ == "__main__":
    main()
