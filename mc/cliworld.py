"""Shared vocabulary for the E2 checks that explore CLI-level world states (C05, C06, C08, C17, C18):
standard workflows, initial worlds, the action alphabet and how each action is applied to a world."""
import copy
import json

from mc import simsched
from mc import world as W
from mc.ref import graph as G
from mc.ref import plan as P
from mc.ref.paths import resolve

SPEC = "echo {name}\n"


def wf_fork():
    return W.Workflow([W.T("A", ["src"], ["a"], spec="echo A\n"), W.T("B", ["a"], ["b"], spec="echo B\n"), W.T("C", ["a"], ["c1", "c2"], spec="echo C\n")])


def wf_chain():
    return W.Workflow([W.T("A", ["src"], ["a"], spec="echo A\n"), W.T("B", ["a"], ["b"], spec="echo B\n"), W.T("C", ["b"], ["c"], spec="echo C\n")])


def wf_diamond():
    return W.Workflow([
        W.T("A", ["src"], {"out": "a"}, spec="echo A\n"),
        W.T("B", ["a"], ["b"], spec="echo B\n"),
        W.T("C", ["a", "src2"], ["c"], spec="echo C\n"),
        W.T("D", [["b"], ["c"]], ["d"], spec="echo D\n"),
        W.T("E", ["a"], [], spec="echo E\n"),
    ])


def wf_pair():
    return W.Workflow([W.T("A", ["src"], ["a"], spec="echo A\n"), W.T("B", ["a"], ["b"], spec="echo B\n")])


def wf_shortcut():
    # X depends on B and C, B depends on C (a "shortcut" edge), and B sorts before C by name
    return W.Workflow([W.T("C", ["src"], ["c"], spec="echo C\n"), W.T("B", ["c"], ["b"], spec="echo B\n"), W.T("X", ["b", "c"], ["x"], spec="echo X\n")])


def wf_topdown():
    # the shortcut workflow written top-down: every target is defined before the targets it depends on
    return W.Workflow([W.T("X", ["b", "c"], ["x"], spec="echo X\n"), W.T("B", ["c"], ["b"], spec="echo B\n"), W.T("C", ["src"], ["c"], spec="echo C\n")])


def wf_forkp():
    # fork in which every output of B is protected: cleaning B deletes nothing, and still forgets B's recorded spec
    return W.Workflow([W.T("A", ["src"], ["a"], spec="echo A\n"), W.T("B", ["a"], ["b"], spec="echo B\n", protect=["b"]), W.T("C", ["a"], ["c1", "c2"], spec="echo C\n")])


def wf_wide4c():
    # four independent targets, each asking for more cores than the local pool has (an option the local backend may or may not know)
    return W.Workflow([W.T(f"T{i}", ["src"], [f"t{i}"], spec=f"echo T{i}\n", options={"cores": 8}) for i in range(4)])


def wf_twocomp():
    return W.Workflow([W.T("A", ["src"], ["a"], spec="echo A\n"), W.T("B", ["a"], ["b"], spec="echo B\n"), W.T("X", ["src2"], ["x"], spec="echo X\n")])


WORKFLOWS = {"twocomp": wf_twocomp, "shortcut": wf_shortcut, "fork": wf_fork, "chain": wf_chain, "diamond": wf_diamond, "pair": wf_pair, "topdown": wf_topdown, "forkp": wf_forkp, "wide4c": wf_wide4c}

SUBMIT_EXE = {"slurm": "sbatch", "sge": "qsub", "lsf": "bsub"}


def sources(wf):
    outs = {p for t in wf.targets for p in t.flat("outputs")}
    return sorted({p for t in wf.targets for p in t.flat("inputs")} - outs)


def init_world(wfname, backend="slurm", hashing=False, fresh=False, accounting=True, clean_logs=None):
    """fresh=False: empty project (only sources exist); fresh=True: all outputs present and up to date."""
    wf = WORKFLOWS[wfname]()
    files = {s: (1, "src:" + s) for s in sources(wf)}
    hashes = None
    if fresh:
        tl = [(t.name, set(t.flat("inputs")), set(t.flat("outputs"))) for t in wf.targets]
        order = G.topo_order(G.relations(tl)["dependencies"])
        r = 1
        for n in order:
            r += 1
            for o in wf.by_name(n).flat("outputs"):
                files[o] = (r, f"{n}#init")
        if hashing:
            hashes = {t.name: W.sha1(t.spec) for t in wf.targets}
    conf = {"backend": backend}
    if hashing:
        conf["use_spec_hashes"] = True
    if backend == "slurm" and not accounting:
        conf["backend.slurm.accounting_enabled"] = False
    if clean_logs is not None:
        conf["clean_logs"] = clean_logs
    if backend == "local":
        from mc import localbridge

        return W.World(wf, files=files, conf=conf, hashes=hashes, sim=None, pool=localbridge.new_pool(cores=2))
    sim = simsched.new_state(backend, accounting=accounting)
    return W.World(wf, files=files, conf=conf, hashes=hashes, sim=sim)


# ------------------------------------------------------------------------------------------------
# reference view of a world


def latest_job(world, name):
    """The job the scheduler created at the most recent *accepted* submission for target `name` (scheduler's own record)."""
    sim = world.sim
    for jid in reversed(sim["order"]):
        j = sim["jobs"][jid]
        if j["user"] == "me" and j["name"] == name:
            return j
    return None


def job_class(world, name):
    """Reference backend state word of target `name`: class of the scheduler's state of its latest accepted job,
    as the scheduler can report it."""
    if world.backend() == "local":
        from mc import localbridge

        return localbridge.job_class(world.pool, name)
    j = latest_job(world, name)
    if j is None:
        return "unknown"
    return visible_class(world.sim, j)


def visible_class(sim, j):
    kind = sim["kind"]
    st = j["state"]
    if kind == "slurm":
        in_q = j["in_queue"]
        if in_q:
            vis = st
        elif sim["accounting"]:
            vis = j["prev"] if j.get("acct_lag") else st
        else:
            return "unknown"
        if in_q and sim["accounting"] is False:
            vis = st
        return {"PENDING": "submitted", "RUNNING": "running", "DONE": "completed", "FAILED": "failed", "TIMEOUT": "failed", "CANCELLED": "cancelled"}[vis]
    if kind == "sge":
        if st in ("PENDING", "RUNNING") and j["in_queue"]:
            return "submitted" if st == "PENDING" else "running"
        return "unknown"
    if kind == "lsf":
        if not j["in_queue"]:
            return "unknown"
        # LSF reports a killed job as EXIT: indistinguishable from a failure
        return {"PENDING": "submitted", "RUNNING": "running", "DONE": "completed", "FAILED": "failed", "TIMEOUT": "failed", "CANCELLED": "failed"}[st]
    raise AssertionError(kind)


def ref_plan(world, roots=None, proj="/proj"):
    wf = world.wf
    targets = wf.ref_targets(proj)
    files = {resolve(proj, p): r for p, (r, _c) in world.files.items()}
    backend = {t.name: job_class(world, t.name) for t in wf.targets}
    hashes = None
    if (world.conf or {}).get("use_spec_hashes"):
        rec = world.hashes or {}
        hashes = {t.name: ("none" if t.name not in rec else ("same" if rec[t.name] == W.sha1(t.spec) else "diff")) for t in wf.targets}
    return P.plan(targets, files, backend, hashes, roots=roots)


# ------------------------------------------------------------------------------------------------
# actions


def tracked_job(world, name):
    return latest_job(world, name)


def enabled_env(world, kinds=("start", "finish_ok", "finish_fail", "timeout", "cancel", "forget")):
    """Environment actions on the *tracked* job of each target (superseded jobs are left alone: they only add
    states that gwf cannot distinguish)."""
    if world.backend() == "local":
        acts = []
        for t in world.pool["summary"]["tasks"]:
            if t["alive"]:
                if t["killed"]:
                    acts.append(("penv", "exit", t["name"], -9))
                else:
                    if "finish_ok" in kinds:
                        acts.append(("penv", "exit", t["name"], 0))
                    if "finish_fail" in kinds:
                        acts.append(("penv", "exit", t["name"], 1))
        if world.pool["summary"]["timers"]:
            acts.append(("penv", "timer"))
        return acts
    sim = simsched.Sim(world.sim)
    acts = []
    for t in world.wf.targets:
        j = tracked_job(world, t.name)
        if j is None:
            continue
        if j["state"] == "PENDING" and sim.dep_status(j) == "ready" and "start" in kinds:
            acts.append(("env", "start", t.name))
        if j["state"] == "RUNNING":
            for a in ("finish_ok", "finish_fail", "timeout"):
                if a in kinds:
                    acts.append(("env", a, t.name))
        if j["state"] in ("PENDING", "RUNNING") and "cancel" in kinds:
            acts.append(("env", "cancel", t.name))
        if j["state"] in simsched.FINAL and j["in_queue"] and "forget" in kinds:
            acts.append(("env", "forget", t.name))
        if j["state"] == "FAILED" and "requeue" in kinds and world.sim["kind"] == "slurm":
            acts.append(("env", "requeue", t.name))
    return acts


def build(wf, backend, actions=(), **init_kw):
    """Initial world + preparatory actions. A gwf command that fails, or an environment step that needs a job gwf should have submitted
    and tracked, raises runner.SetupFailed (reported as a violation with this recipe as its replayable case)."""
    from mc.errors import SetupFailed

    recipe = dict(wf=wf, backend=backend, actions=[list(a) for a in actions], **init_kw)
    w = init_world(wf, backend, **init_kw)
    for k, a in enumerate(actions):
        a = tuple(a) if a[0] != "gwf" else ("gwf", list(a[1]))
        if a[0] == "env" and tracked_job(w, a[2]) is None:
            raise SetupFailed(recipe, dict(step=k, action=list(a), tracked=w.tracked), f"no tracked job for {a[2]} after the preceding commands")
        if a[0] == "env" and a not in enabled_env(w):
            raise SetupFailed(recipe, dict(step=k, action=list(a), jobs={j: (v["name"], v["state"]) for j, v in w.sim["jobs"].items()}), f"scheduler step {a[1]} {a[2]} is not possible after the preceding commands")
        w, res = apply_action(w, a)
        if res is not None and (res.exit_code != 0 or res.crashed()):
            raise SetupFailed(recipe, res.as_dict(), f"`gwf {' '.join(a[1])}` failed: {res.exc or res.err_summary()}")
        w.normalize()
    return w


def apply_action(world, action, session=None):
    """Returns (new_world, result_or_None). Every gwf action runs the real CLI in a fresh Session."""
    kind = action[0]
    if kind == "gwf":
        with W.Session(world) as s:
            r = s.gwf(list(action[1]), input=action[2] if len(action) > 2 else None)
            w2 = s.snapshot()
        return w2, r
    w2 = world.copy()
    if kind == "env":
        _, act, name = action
        j = tracked_job(w2, name)
        sim = simsched.Sim(w2.sim)
        sim.step(act, j["id"])
        if act == "finish_ok":
            clock = w2.clock() + 1
            for o in w2.wf.by_name(name).flat("outputs"):
                w2.files[o] = (clock, f"{name}#{j['id']}")
        return w2, None
    if kind == "penv" or kind == "prestart":
        from mc import localbridge

        op = ["restart"] if kind == "prestart" else list(action[1:])
        _, w2.pool, logs = localbridge.with_live(w2.pool, lambda live: live.apply(op))
        w2.logs.update(logs)  # the pool writes <task>.stdout/.stderr when a process ends
        if kind == "penv" and action[1] == "exit" and action[3] == 0 and action[2] in w2.wf.names():
            clock = w2.clock() + 1
            for o in w2.wf.by_name(action[2]).flat("outputs"):
                w2.files[o] = (clock, f"{action[2]}#pool")
        return w2, None
    if kind == "carry_out_cancels":
        simsched.Sim(w2.sim).carry_out_cancels()
        return w2, None
    if kind == "acct_lag":
        _, name, flag = action
        tracked_job(w2, name)["acct_lag"] = flag
        return w2, None
    if kind == "modify":
        w2.files[action[1]] = (w2.clock() + 1, w2.files.get(action[1], (0, ""))[1] + "+")
        return w2, None
    if kind == "delete":
        w2.files.pop(action[1], None)
        return w2, None
    if kind == "editspec":
        w2.wf = w2.wf.with_spec(action[1], w2.wf.by_name(action[1]).spec + "# edited\n")
        return w2, None
    if kind == "setconf":
        w2.conf = dict(w2.conf or {})
        if action[2] is None:
            w2.conf.pop(action[1], None)
        else:
            w2.conf[action[1]] = action[2]
        return w2, None
    raise AssertionError(action)


def replay_trace(init_world, trace):
    w = init_world
    for a in trace:
        w, _ = apply_action(w, tuple(a) if not isinstance(a, tuple) else a)
    return w


def cone_names(world, sel):
    """Names in the dependency cone of a selection (None = all endpoints => everything)."""
    import fnmatch

    tl = [(t.name, set(t.flat("inputs")), set(t.flat("outputs"))) for t in world.wf.targets]
    rel = G.relations(tl)
    if sel is None:
        roots = rel["endpoints"]
    else:
        roots = {n for pat in sel for n in world.wf.names() if fnmatch.fnmatchcase(n, pat)}
    return G.cone(rel["dependencies"], roots), roots, rel
