"""Exception types shared between the runner (which may run as __main__) and the check modules."""


class SetupFailed(Exception):
    """A real gwf command that only *prepares* a scenario (e.g. the first `gwf run` of a history) failed. That is a finding about the code
    under test, not a harness problem: it is reported as a violation whose case is the recipe (workflow, backend, actions)."""

    def __init__(self, recipe, result, why):
        super().__init__(why)
        self.recipe, self.result, self.why = recipe, result, why
