"""Shared driver for C11/C12/C13: explore scenarios with mc.poolx and report the violations of one property."""
import json

from mc import poolscen, poolx


def pool_batch(acc, batch, prop=None, bound=1):
    from mc.runner import worker_scratch

    scratch = worker_scratch("pool")
    for sc in batch:
        stats = dict(executions=0, choice_points=0, pruned=0, transitions=0, states=set())
        outcomes = set()

        def on_exec(ex, points, sc=sc):
            vs = ex.violations + ex.final_checks()
            finals = tuple(ex.state_name(i) for i in range(ex.n))
            outcomes.add((finals, ex.max_live))
            acc.case(key=None, outcome=f"final={finals} maxlive={ex.max_live}", nontrivial=False)
            for p, what, detail in vs:
                if p != prop:
                    continue
                acc.violation(sig=dict(what=what, via=sc.get("via"), mseq=sc.get("mseq"), extras=sorted(k for k in sc if k in ("start_fail", "log_fail", "kill_race", "payloads"))),
                              case=dict(sc=sc, choices=[pt[1] for pt in points]), observed=detail,
                              msg=f"{what}: scenario cores={sc['cores']} tasks={[(t['deps'], t.get('time_limit')) for t in sc['tasks']]} ops={sc['ops'] or sc.get('mseq')} trace={ex.trace}: {json.dumps(detail, default=str)[:300]}")

        poolx.explore(sc, scratch, bound, stats, on_exec)
        if stats.get("divergences"):
            # The code under test is not a function of the schedule (it depends e.g. on the iteration order of a set of Task objects,
            # i.e. on object addresses). The explorer cannot own that; as a fallback the scenario is explored a few more times under
            # shifted heap layouts so that other orders get a chance to show. This part is sampling and is reported as such.
            ballast = []
            for rep in range(6):
                ballast.append([object() for _ in range(997 * (rep + 1))])
                st2 = dict(executions=0, choice_points=0, pruned=0, transitions=0, states=set())
                poolx.explore(sc, scratch, bound, st2, on_exec)
                acc.extra["resampled_executions_after_divergence"] += st2["executions"]
        acc.extra["executions"] += stats["executions"]
        acc.extra["choice_points"] += stats["choice_points"]
        acc.extra["transitions"] += stats["choice_points"]
        acc.extra["pruned_revisits"] += stats["pruned"]
        acc.extra["replay_divergences"] += stats.get("divergences", 0)
        acc.sets["states"] |= {hash((json.dumps(sc, sort_keys=True, default=str), h)) for h in stats["states"]}
        acc.nontrivial.add(hash(json.dumps(sc, sort_keys=True, default=str)))
        if len(acc.samples) < 3:
            acc.samples.append(dict(scenario=json.loads(json.dumps(sc, default=str)), executions=stats["executions"], distinct_outcomes=len(outcomes)))


def prune_validation_batch(acc, batch, prop=None, bound=1):
    """Soundness check of the state-hash pruning: the same scenario explored with and without pruning must yield the same set
    of terminal observations (final states, peak of live processes, violations)."""
    from mc.runner import worker_scratch

    scratch = worker_scratch("pool")
    for sc in batch:
        obs = {}
        for prune in (True, False):
            seen = set()
            stats = dict(executions=0, choice_points=0, pruned=0, transitions=0, states=set())

            def on_exec(ex, points, seen=seen):
                acc.tick()  # one finished execution is progress (an unpruned exploration of one scenario can take minutes)
                vs = sorted((p, w) for p, w, _ in ex.violations + ex.final_checks())
                # (the peak of live processes is a path property, not a state property: it is judged by the monitor at every spawn and is
                # deliberately not part of what must coincide)
                seen.add((tuple(ex.state_name(i) for i in range(ex.n)), tuple(vs)))

            poolx.explore(sc, scratch, bound, stats, on_exec, prune=prune)
            obs[prune] = (seen, stats["executions"])
        same = obs[True][0] == obs[False][0]
        acc.case(key=json.dumps(sc, sort_keys=True, default=str), outcome=f"prune-validation same={same}", nontrivial=True)
        acc.extra["prune_validated_scenarios"] += 1
        acc.extra["executions_without_pruning"] += obs[False][1]
        if not same:
            acc.violation(sig=dict(what="pruned exploration misses terminal observations (harness soundness)", tier="prune"), case=dict(sc=sc, choices=[]),
                          observed=dict(only_unpruned=sorted(map(str, obs[False][0] - obs[True][0]))[:5], only_pruned=sorted(map(str, obs[True][0] - obs[False][0]))[:5]),
                          msg=f"pruning changes the set of terminal observations for scenario {sc}")


def real_trace_batch(acc, batch, prop=None):
    from mc import realtier

    realtier.trace_batch(acc, batch, prop=prop)


def real_output_batch(acc, batch, prop=None):
    from mc import realtier

    realtier.output_batch(acc, batch, prop=prop)


def real_kill_batch(acc, batch, prop=None):
    from mc import realtier

    realtier.kill_batch(acc, batch, prop=prop)


def run_pool(ctx, module, prop):
    quick = ctx.tier == "quick"
    if quick:
        scs = poolscen.scenarios(3, (1, 2), ncancel=1)
        bound = 1
    else:
        scs = poolscen.scenarios(3, (1, 2, 3), ncancel=2) + [s for s in poolscen.scenarios(4, (1, 2), ncancel=1, time_limits=False, extras=False) if len(s["tasks"]) == 4]
        bound = 2
    # server-mode (pipelined) variants of a slice of the scenarios
    # (Scheduler.shutdown is an operation of the API; a shutdown racing with enqueue requests still in a connection's buffer is not a scenario)
    srv = [dict(s, via="server") for s in scs if (len(s["tasks"]) <= 2 or (quick is False and len(s["tasks"]) == 3 and s["cores"] == 1)) and ("shutdown",) not in [tuple(o) for o in s["ops"]]]
    scs = scs + srv
    # thorough: 4-task scenarios at bound 1 only (cost)
    small = [s for s in scs if len(s["tasks"]) <= 3]
    big = [s for s in scs if len(s["tasks"]) > 3]
    ctx.pmap(module, "pool_batch", small, chunk=2, prop=prop, bound=bound)
    if big:
        ctx.pmap(module, "pool_batch", big, chunk=2, prop=prop, bound=1)
    if ctx.acc.extra["replay_divergences"]:
        n = ctx.acc.extra["replay_divergences"]
        if not ctx.acc.violations:
            raise RuntimeError(f"{n} replay divergences and no violation found: the code under test is not a function of the schedule (address-ordered set?); "
                               "the exploration cannot be called exhaustive")
        ctx.notes["nondeterministic_code"] = True
        print(f"NOTE: {n} branches could not be replayed deterministically (the code under test depends on something outside the schedule, "
              "e.g. the iteration order of a set of Task objects); violations below come from the executions that could be completed")
        ctx.caps.append(f"{n} replay divergences: branches skipped")
    # ---- pruning validated against unpruned exploration on a slice of the scenarios (small ones: unpruned is exponential)
    pv = [s for s in small if len(s["tasks"]) <= 2 and s.get("via") != "multi"][:: (6 if quick else 2)]
    ctx.pmap(module, "prune_validation_batch", pv, chunk=1, prop=prop, bound=bound if quick else 1)
    ctx.notes.setdefault("coverage_extra", {})["prune_validated_scenarios"] = len(pv)
    # ---- real-loop / real-process tier: bind the fake processes and the virtual clock back to reality
    from mc import realtier

    real_scs = [s for s in scs if s.get("via") == "api" and len(s["tasks"]) <= (2 if quick else 3) and not any(k in s for k in ("start_fail", "log_fail", "payloads", "kill_race"))
                and not any(t.get("extra_deps") for t in s["tasks"]) and all(c >= 0 for t in s["tasks"] for c in t.get("codes", (0,)) if c != -11)]
    real_scs = real_scs[:: max(1, len(real_scs) // (10 if quick else 60))]
    items = []
    for sc in real_scs:
        sc2 = dict(sc, tasks=[dict(t, codes=tuple(c for c in t.get("codes", (0,)) if c >= 0) or (0,)) for t in sc["tasks"]])
        found = []

        def on_exec(ex, points, found=found):
            if len(found) < (2 if quick else 4):
                key = tuple(ex.state_name(i) for i in range(ex.n))
                if key not in [f[0] for f in found]:
                    found.append((key, [p[1] for p in points]))

        import tempfile
        import shutil

        d = tempfile.mkdtemp(dir="/dev/shm", prefix="gwf-mc-realsel-")
        try:
            from mc import poolx

            poolx.explore(sc2, d, 0, dict(executions=0, choice_points=0, pruned=0, transitions=0, states=set()), on_exec)
        finally:
            shutil.rmtree(d, ignore_errors=True)
        items += [(sc2, ch) for _k, ch in found]
    ctx.pmap(module, "real_trace_batch", items, chunk=1, prop=prop)
    if prop == "C11":
        ctx.pmap(module, "real_kill_batch", [(k, how, n) for n, (k, how) in enumerate((k, h) for k in realtier.KILL_SCRIPTS for h in ("cancel", "timeout"))], chunk=1, prop=prop)
    if prop == "C13":
        ctx.pmap(module, "real_output_batch", ["big-stderr-first", "big-stdout-first", "interleaved", "small-nonzero"], chunk=1, prop=prop)
        ctx.pmap(module, "real_kill_batch", [(k, how, n) for n, (k, how) in enumerate((k, h) for k in realtier.KILL_SCRIPTS for h in ("cancel", "timeout"))], chunk=1, prop=prop)
    ctx.traces_validated = ctx.acc.extra["traces_validated"]
    ctx.notes.setdefault("coverage_extra", {})["real_process_traces_replayed"] = len(items)
    ctx.rule = ("scenario = (cores, task DAG with deps on earlier tasks, time limit on task 0, exit-code alphabets, op script with cancels at every position, api/server, "
                "start/log failures, payloads); every execution with <= D deviations is run on the real Scheduler/Server; non-trivial = distinct scenario")
    ctx.bound = dict(scenarios=len(scs), tasks_max=max(len(s["tasks"]) for s in scs), deviations=bound, cancels=1 if quick else 2, cores=[1, 2] if quick else [1, 2, 3])
    ctx.assumptions = [
        "asyncio Task/Semaphore/wait/wait_for/StreamReader run as shipped on a hand-stepped BaseEventLoop; child processes, clock and sockets are fakes (validated by the real-process tier)",
        "the core bound counts processes that have not been sent SIGKILL (a process that survives SIGKILL is outside gwf's control; SIGTERM may be ignored, so a process that only got SIGTERM still counts)",
        "state-hash pruning at quiescent points (task table, coroutine positions, semaphore, process table, timers, facts)",
    ]


def replay_pool(case, prop):
    from mc.runner import Acc, worker_scratch

    if case.get("kind") == "real-kill":
        from mc import realtier

        acc = Acc()
        realtier.kill_batch(acc, [(case["script"], case["how"], case["n"])], prop=prop)
        return acc.violations
    if case.get("kind") == "real-output":
        from mc import realtier

        acc = Acc()
        realtier.output_batch(acc, [case["script"]])
        return acc.violations
    if case.get("kind") == "real-trace":
        from mc import realtier

        acc = Acc()
        sc = case["sc"]
        sc = dict(sc, ops=[tuple(o) for o in sc["ops"]], tasks=[dict(t, codes=tuple(t.get("codes", (0,)))) for t in sc["tasks"]])
        realtier.trace_batch(acc, [(sc, list(case["choices"]))])
        return acc.violations

    import copy

    case = copy.deepcopy(case)  # never mutate the recorded case (it is written to the replay file afterwards)
    sc = case["sc"]
    sc = dict(sc, ops=[tuple(o) for o in sc["ops"]], tasks=[dict(t, codes=tuple(t.get("codes", (0,))), extra_deps=tuple(t.get("extra_deps", ()))) if True else t for t in sc["tasks"]])
    if isinstance(sc.get("log_fail"), list):
        sc["log_fail"] = tuple(sc["log_fail"])
    if "start_fail" in sc:
        sc["start_fail"] = tuple(sc["start_fail"])
    if "payloads" in sc:
        sc["payloads"] = {int(k): (v[0].encode("latin1") if isinstance(v[0], str) else v[0], v[1].encode("latin1") if isinstance(v[1], str) else v[1]) for k, v in sc["payloads"].items()}
    for t in sc["tasks"]:
        if not t.get("extra_deps"):
            t.pop("extra_deps", None)
    if sc.get("clients"):
        for c in sc["clients"]:
            c["ops"] = [tuple(o[:1]) + ((o[1].encode("latin1"),) if o[0] == "raw" and isinstance(o[1], str) else tuple(o[1:])) for o in c["ops"]]
    try:
        ex, points = poolx.run_one(sc, worker_scratch("pool"), list(case["choices"]))
    except poolx.ReplayDivergence as e:
        a = Acc()
        a.violation(dict(what="recorded schedule cannot be replayed: the code under test is not a function of the schedule"), case, observed=str(e))
        return a.violations
    try:
        vs = ex.violations + ex.final_checks()
    finally:
        ex.close()
    acc = Acc()
    for p, what, detail in vs:
        if p == prop:
            acc.violation(dict(what=what), case, observed=detail)
    return acc.violations
