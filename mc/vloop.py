"""Virtual asyncio event loop + fake subprocesses / streams, for exhaustive schedule exploration of
gwf.backends.local (Scheduler, Server).  Stock asyncio Task / Semaphore / wait / wait_for / StreamReader run on it
unchanged; the selector, clock, child processes and sockets are replaced and driven by the explorer.
"""
from __future__ import annotations

import asyncio
import heapq
from asyncio import events


class VLoop(asyncio.BaseEventLoop):
    """An event loop whose iterations are stepped by hand.

    step()      run exactly the callbacks that were ready at the start of the iteration (as _run_once does)
    fire_timer()jump the virtual clock to the earliest deadline and make the due timers ready
    """

    def __init__(self):
        super().__init__()
        self._vtime = 0.0
        self.exceptions = []  # contexts passed to the exception handler (never used as an oracle: GC-timed)
        self.set_exception_handler(lambda loop, ctx: self.exceptions.append(ctx))

    # -- BaseEventLoop plumbing ------------------------------------------------------------
    def time(self):
        return self._vtime

    def _process_events(self, event_list):  # pragma: no cover
        pass

    def _write_to_self(self):
        pass

    def is_running(self):
        return True

    def run_in_executor(self, executor, func, *args):
        """No real threads on the virtual loop (they would wake it from outside the explorer's control): the function runs inline and
        its result arrives one loop iteration later — still an await point at which other tasks can run."""
        fut = self.create_future()
        try:
            res = func(*args)
        except BaseException as e:  # noqa: BLE001 - delivered to the awaiting coroutine, as an executor would
            self.call_soon(lambda: fut.done() or fut.set_exception(e))
        else:
            self.call_soon(lambda: fut.done() or fut.set_result(res))
        return fut

    def call_soon_threadsafe(self, callback, *args, context=None):
        return self.call_soon(callback, *args, context=context)

    # -- explorer primitives -----------------------------------------------------------------
    def _clean_scheduled(self):
        while self._scheduled and self._scheduled[0]._cancelled:
            h = heapq.heappop(self._scheduled)
            h._scheduled = False

    def n_ready(self):
        return sum(1 for h in list(self._ready) if not h._cancelled)

    def next_deadline(self):
        self._clean_scheduled()
        return self._scheduled[0]._when if self._scheduled else None

    def _move_due(self):
        self._clean_scheduled()
        while self._scheduled and self._scheduled[0]._when <= self._vtime:
            h = heapq.heappop(self._scheduled)
            h._scheduled = False
            if not h._cancelled:
                self._ready.append(h)
            self._clean_scheduled()

    def step(self):
        self._move_due()
        n = len(self._ready)
        prev = events._get_running_loop()
        events._set_running_loop(self)
        try:
            for _ in range(n):
                h = self._ready.popleft()
                if h._cancelled:
                    continue
                h._run()
        finally:
            events._set_running_loop(prev)

    def fire_timer(self):
        dl = self.next_deadline()
        assert dl is not None
        if dl > self._vtime:
            self._vtime = dl
        self._move_due()

    def run_quiescent(self, limit=10000):
        n = 0
        while self.n_ready():
            self.step()
            n += 1
            if n > limit:
                raise RuntimeError("virtual loop does not go quiescent (spin?)")

    def do(self, fn, *a):
        """Call fn with this loop installed as the running loop (for create_task etc. from the explorer)."""
        prev = events._get_running_loop()
        events._set_running_loop(self)
        try:
            return fn(*a)
        finally:
            events._set_running_loop(prev)


FAKE_PID_BASE = 2**22 + 1000  # above the kernel's pid_max: an un-intercepted os.kill/killpg can never hit a real process


class OsShim:
    """Stands in for the `os` module inside gwf.backends.local: killpg on a fake pid is routed to the fake process."""

    def __init__(self, world):
        self._world = world

    def __getattr__(self, k):
        import os

        return getattr(os, k)

    def _proc(self, pid):
        for p in self._world.procs:
            if p.pid == pid:
                return p
        raise ProcessLookupError(pid)

    def killpg(self, pgid, sig):
        import signal

        p = self._proc(pgid)
        if sig == signal.SIGKILL:
            p.kill()
        else:
            p.terminate()

    def kill(self, pid, sig):
        self.killpg(pid, sig)


class TimeShim:
    """Stands in for the `time` module inside gwf.backends.local while a pool runs on the virtual loop: the clock is the loop's."""

    def __init__(self, loop):
        self._loop = loop

    def __getattr__(self, k):
        import time

        return getattr(time, k)

    def monotonic(self):
        return self._loop.time()

    def time(self):
        return 1_500_000_000.0 + self._loop.time()

    def perf_counter(self):
        return self._loop.time()


class FakeProc:
    """Stands in for asyncio.subprocess.Process. Life cycle is driven by the explorer via `deliver_exit`."""

    def __init__(self, world, pid, script, cwd, tag):
        self.world = world
        self.pid = pid
        self.script = script
        self.cwd = cwd
        self.tag = tag  # harness-level task identity (from the script text)
        self.returncode = None
        self.killed = False
        self.terminated = False
        self.kill_calls = 0
        self.stubborn = False  # the script left a command in its process group that ignores SIGTERM: the group lives until it is sent SIGKILL
        self._waiters = []
        self.stdout_data = b""
        self.stderr_data = b""

    @property
    def alive(self):
        return self.returncode is None

    async def _wait_exit(self):
        if self.returncode is not None:
            return
        fut = self.world.loop.create_future()
        self._waiters.append(fut)
        await fut

    async def communicate(self, input=None):
        await self._wait_exit()
        return self.stdout_data, self.stderr_data

    async def wait(self):
        await self._wait_exit()
        return self.returncode

    @property
    def group_alive(self):
        return self.returncode is None or (self.stubborn and not self.killed)

    def kill(self):
        self.kill_calls += 1
        if not self.group_alive:
            raise ProcessLookupError()  # as asyncio.base_subprocess does once the exit was processed / killpg on an empty group
        self.killed = True
        self.world.event("kill", self)

    def terminate(self):
        if not self.group_alive:
            raise ProcessLookupError()
        self.terminated = True
        self.world.event("terminate", self)

    def send_signal(self, sig):
        self.kill()

    # explorer side
    def deliver_exit(self, code):
        assert self.returncode is None
        self.returncode = code
        for f in self._waiters:
            if not f.done():
                f.set_result(None)
        self._waiters = []
        self.world.event("exit", self, code)


class PoolWorld:
    """Owns the loop, the fake process table and the patching of asyncio.create_subprocess_shell."""

    def __init__(self, start_failures=(), payloads=None, stubborn=(), start_exc="oserror"):
        self.stubborn = set(stubborn)
        self.start_exc = start_exc  # how process creation fails: an OSError (missing working directory) or a ValueError (NUL in the script)
        self.loop = VLoop()
        self.procs = []
        self.events = []
        self.start_failures = set(start_failures)  # tags whose process creation raises
        self.payloads = payloads or {}
        self._saved = None
        self.listeners = []

    def event(self, kind, proc, *a):
        self.events.append((kind, proc.tag, *a))
        for l in self.listeners:
            l(kind, proc, *a)

    async def create_subprocess_shell(self, script, stdout=None, stderr=None, cwd=None, **kw):
        tag = script.strip().split()[-1] if script.strip() else "?"
        if tag in self.start_failures:
            self.events.append(("start-failure", tag))
            if self.start_exc == "value":
                raise ValueError("embedded null byte")
            raise FileNotFoundError(2, "No such file or directory", cwd)
        p = FakeProc(self, FAKE_PID_BASE + len(self.procs), script, cwd, tag)
        out, err = self.payloads.get(tag, (b"", b""))
        p.stdout_data, p.stderr_data = out, err
        p.stubborn = tag in self.stubborn
        self.procs.append(p)
        self.event("spawn", p)
        return p

    def __enter__(self):
        import gwf.backends.local as gl

        self._saved = asyncio.create_subprocess_shell
        asyncio.create_subprocess_shell = self.create_subprocess_shell
        self._saved_os = gl.__dict__.get("os")
        gl.os = OsShim(self)
        self._saved_time = gl.__dict__.get("time")
        gl.time = TimeShim(self.loop)
        return self

    def __exit__(self, *a):
        import gwf.backends.local as gl

        asyncio.create_subprocess_shell = self._saved
        if self._saved_os is not None:
            gl.os = self._saved_os
        else:
            gl.__dict__.pop("os", None)
        if self._saved_time is not None:
            gl.time = self._saved_time
        else:
            gl.__dict__.pop("time", None)
        # break reference cycles deterministically; pending tasks are dropped with the loop
        try:
            for t in asyncio.all_tasks(self.loop):
                t._log_destroy_pending = False
        except Exception:
            pass
        self.loop._ready.clear()
        self.loop._scheduled.clear()
        # the loop object is simply dropped (closing it makes late Task finalisers complain on stderr)
        self.loop.call_exception_handler = lambda ctx: None

    def live(self):
        return [p for p in self.procs if p.alive]


class FakeWriter:
    """Recording StreamWriter stand-in."""

    def __init__(self, fail_drain=False, block_drain=False):
        self.data = bytearray()
        self.fail_drain = fail_drain
        self.block_drain = block_drain  # the peer never reads: once something was written, drain() does not return
        self.closed = False

    def write(self, b):
        self.data += b

    async def drain(self):
        if self.fail_drain:
            raise ConnectionResetError("Connection lost")
        if self.block_drain:
            import asyncio

            await asyncio.get_running_loop().create_future()

    def close(self):
        self.closed = True

    async def wait_closed(self):
        pass

    def lines(self):
        return [l for l in bytes(self.data).decode("utf-8", "replace").splitlines() if l]
