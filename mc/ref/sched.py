"""Reference classification of scheduler state codes (written from the schedulers' documentation, not from gwf's tables).

Each code maps to the set of rows gwf may show for a target whose latest job is in that state.
'FB' stands for the file-based decision (completed / shouldrun).  Where the property statement is explicit the set is a
singleton; where it does not settle the class (suspended, transitional, error/deleting states) a permitted set is given.
"""
INFLIGHT = {"submitted", "running"}
FAILURE = {"failed", "cancelled"}

SLURM_SQUEUE = {
    # queued / held
    "PD": {"submitted"}, "RH": {"submitted"}, "RD": {"submitted"}, "RF": {"submitted"}, "RQ": {"submitted"},
    # executing
    "R": {"running"},
    # failures
    "F": {"failed"}, "TO": {"failed"}, "OOM": {"failed"}, "NF": {"failed"}, "BF": {"failed"}, "DL": {"failed"},
    # cancellation
    "CA": {"cancelled"},
    # success
    "CD": {"FB"},
    # transitional / suspended: still owned by the scheduler -> some in-flight class
    "CF": INFLIGHT, "CG": INFLIGHT, "SI": INFLIGHT, "SO": INFLIGHT, "SE": INFLIGHT, "RS": INFLIGHT, "RV": INFLIGHT | FAILURE, "S": INFLIGHT, "ST": INFLIGHT,
    # preempted: a terminated job that did not succeed
    "PR": FAILURE,
}

SLURM_SACCT = {
    "PENDING": {"submitted"}, "REQUEUED": {"submitted"},
    "RUNNING": {"running"},
    "FAILED": {"failed"}, "TIMEOUT": {"failed"}, "OUT_OF_MEMORY": {"failed"}, "NODE_FAIL": {"failed"}, "BOOT_FAIL": {"failed"}, "DEADLINE": {"failed"},
    "CANCELLED": {"cancelled"}, "CANCELLED by 1000": {"cancelled"},
    "COMPLETED": {"FB"},
    "RESIZING": INFLIGHT, "REVOKED": INFLIGHT | FAILURE, "SUSPENDED": INFLIGHT,
    "PREEMPTED": FAILURE,
}

LSF = {
    "PEND": {"submitted"}, "WAIT": {"submitted"}, "PROV": INFLIGHT,
    "RUN": {"running"},
    "EXIT": {"failed"},
    "DONE": {"FB"},
    "PSUSP": INFLIGHT | FAILURE, "USUSP": INFLIGHT | FAILURE, "SSUSP": INFLIGHT | FAILURE,
    "ZOMBI": INFLIGHT | FAILURE, "UNKWN": INFLIGHT | FAILURE | {"FB"},
}

SGE = {
    "qw": {"submitted"}, "hqw": {"submitted"}, "hRwq": {"submitted"},
    "r": {"running"}, "t": {"running"}, "Rr": {"running"}, "Rt": {"running"},
    "s": INFLIGHT | FAILURE, "ts": INFLIGHT | FAILURE, "S": INFLIGHT | FAILURE, "tS": INFLIGHT | FAILURE, "T": INFLIGHT | FAILURE, "tT": INFLIGHT | FAILURE,
    "Rs": INFLIGHT | FAILURE,
    "Eqw": INFLIGHT | FAILURE | {"FB"}, "Ehqw": INFLIGHT | FAILURE | {"FB"},
    "dr": INFLIGHT | FAILURE | {"FB"}, "dt": INFLIGHT | FAILURE | {"FB"}, "dRr": INFLIGHT | FAILURE | {"FB"},
}

LOCAL = {
    "UNKNOWN": {"FB"}, "SUBMITTED": {"submitted"}, "RUNNING": {"running"}, "FAILED": {"failed"}, "COMPLETED": {"FB"}, "CANCELLED": {"cancelled"}, "KILLED": {"failed"},
}


def allowed(table, code, file_based):
    return {file_based if x == "FB" else x for x in table[code]}
