"""Reference path semantics, independent of os.path: lexical POSIX normalisation and container leaves."""


def normalize(path: str) -> str:
    """Lexically normalise an absolute POSIX path: fold '', '.', '..'."""
    assert path.startswith("/"), path
    out = []
    for comp in path.split("/"):
        if comp == "" or comp == ".":
            continue
        if comp == "..":
            if out:
                out.pop()
            continue
        out.append(comp)
    return "/" + "/".join(out)


def resolve(working_dir: str, path: str, cwd: str = "/") -> str:
    """The file a declared path denotes: relative to working_dir (itself relative to cwd), normalised."""
    path = str(path)
    if path.startswith("/"):
        return normalize(path)
    wd = working_dir if working_dir.startswith("/") else cwd.rstrip("/") + "/" + working_dir
    return normalize(wd.rstrip("/") + "/" + path)


def leaves(container):
    """The declared paths of an inputs/outputs value: every leaf that is a string (or path-like)."""
    res = []

    def rec(x):
        if isinstance(x, str) or hasattr(x, "__fspath__"):
            res.append(x)
        elif isinstance(x, dict):
            for v in x.values():
                rec(v)
        else:
            for v in x:
                rec(v)

    rec(container)
    return res
