"""Reference for C01/C02/C05/C06: the up-to-date predicate and the submission plan, written from the
property statements (declaratively, in topological order; no recursion, no memo).

Target description: dict(name, inputs:set, outputs:set)  (resolved paths)
files: path -> mtime (number) ; absent key = missing
backend: name -> one of 'unknown','submitted','running','completed','failed','cancelled'
hashes: None (hashing off) or dict name -> 'same' | 'diff' | 'none'
"""
from . import graph as G

INFLIGHT = ("submitted", "running")


def up_to_date(t, files, hash_state):
    """C01: completed iff >=1 declared output path, all outputs exist, no input strictly newer than the
    oldest output, and (hashing on) recorded spec == current spec."""
    outs, ins = t["outputs"], t["inputs"]
    if hash_state is not None and hash_state != "same":
        return False
    if not outs:
        return False
    if any(p not in files for p in outs):
        return False
    oldest_out = min(files[p] for p in outs)
    for p in ins:
        if p in files and files[p] > oldest_out:
            return False
    return True


def plan(targets, files, backend, hashes, roots=None):
    """Returns dict(status: name->str for the cone, submitted: set, prereqs: name->set(names)).
    status in shouldrun/submitted/running/completed/failed/cancelled."""
    tl = [(t["name"], set(t["inputs"]), set(t["outputs"])) for t in targets]
    rel = G.relations(tl)
    deps = rel["dependencies"]
    byname = {t["name"]: t for t in targets}
    if roots is None:
        roots = rel["endpoints"]
    c = G.cone(deps, roots)
    status, submitted, prereqs = {}, set(), {}
    for n in G.topo_order(deps):
        if n not in c:
            continue
        incomplete = {d for d in deps[n] if status[d] != "completed"}
        b = backend.get(n, "unknown")
        if b in INFLIGHT:
            status[n] = b
            continue
        if b in ("failed", "cancelled"):
            status[n] = b
            submitted.add(n)
            prereqs[n] = incomplete
            continue
        hs = None if hashes is None else hashes.get(n, "none")
        if incomplete or not up_to_date(byname[n], files, hs):
            status[n] = "shouldrun"
            submitted.add(n)
            prereqs[n] = incomplete
        else:
            status[n] = "completed"
    return dict(status=status, submitted=submitted, prereqs=prereqs, deps=deps, endpoints=rel["endpoints"], cone=c)
