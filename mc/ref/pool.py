"""Reference for the local pool (C11-C14): the set of admissible final states of a task as a function of *what happened
to it* (facts observed by the harness) and of its dependencies' final states. Written from the property statements."""

FAILCLASS = {"FAILED", "KILLED"}


def allowed_final(i, sc, facts, states):
    t = sc["tasks"][i]
    f = facts[i]
    dep_states = [states[d] for d in t["deps"]]
    bad = [s for s in dep_states if s != "COMPLETED"]
    if t.get("extra_deps"):
        # depends on an id the pool never issued: cannot be started; must end failed (or cancelled if cancelled)
        return {"FAILED", "KILLED"} | ({"CANCELLED"} if f["cancel_nonfinal"] else set())
    if bad:
        # never started; failed after a failure, cancelled after a cancellation (either if both occur);
        # its own cancellation while waiting also yields cancelled
        allowed = set()
        for s in bad:
            if s in FAILCLASS:
                allowed |= FAILCLASS
            elif s == "CANCELLED":
                allowed.add("CANCELLED")
            else:
                allowed |= FAILCLASS | {"CANCELLED"}  # dependency itself not final: reported separately for that task
        if f["cancel_nonfinal"]:
            allowed.add("CANCELLED")
        return allowed
    if f["cancel_nonfinal"]:
        # cancelled while waiting or running; if its process had already exited 0 the success may win the race
        return {"CANCELLED"} | ({"COMPLETED"} if f["cancel_after_exit0"] else set()) | (set(FAILCLASS) if f.get("shutdown_after_failed_exit") else set())
    if f["spawns"] == 0:
        if i in sc.get("start_fail", ()):
            return set(FAILCLASS)
        # accepted, dependencies fine, never cancelled, never started: not a final outcome at all
        return set()
    if f["killed"]:
        # killed without a cancel = time limit exceeded (exit 0 arriving in the same instant may win)
        return set(FAILCLASS) | ({"COMPLETED"} if f["exit"] == 0 and sc.get("kill_race") else set())
    if sc.get("log_fail") is True or i in (sc.get("log_fail") or ()):
        return set(FAILCLASS)  # its output could not be stored: must not be reported completed... or left running
    if f["exit"] == 0:
        # a time limit that elapses in the same instant as the exit may win the race
        return {"COMPLETED"} | (set(FAILCLASS) if t.get("time_limit") and f.get("timer_during_run") else set())
    if f["exit"] is not None:
        return set(FAILCLASS)
    return set()
