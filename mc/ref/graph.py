"""Reference dependency relation induced by shared file paths + classification of ill-formed workflows.

A target description is a dict: name, inputs (set of resolved paths), outputs (set of resolved paths).
"""


def relations(targets):
    """targets: list of (name, inputs:set, outputs:set) with *resolved* paths.
    Returns dict(provides, dependencies, dependents, unresolved, endpoints, multi)."""
    producers = {}
    for name, _ins, outs in targets:
        for p in outs:
            producers.setdefault(p, set()).add(name)
    multi = {p: ns for p, ns in producers.items() if len(ns) > 1}
    deps = {name: set() for name, _, _ in targets}
    unresolved = set()
    for name, ins, _outs in targets:
        for p in ins:
            if p in producers:
                deps[name] |= producers[p]
            else:
                unresolved.add(p)
    dependents = {name: set() for name, _, _ in targets}
    for n, ds in deps.items():
        for d in ds:
            dependents[d].add(n)
    endpoints = {n for n, ds in dependents.items() if not ds}
    provides = {p: next(iter(ns)) for p, ns in producers.items() if len(ns) == 1}
    return dict(
        provides=provides,
        dependencies=deps,
        dependents=dependents,
        unresolved=unresolved,
        endpoints=endpoints,
        multi=multi,
    )


def has_cycle(deps):
    """deps: name -> set(names). Iterative; a self-loop counts."""
    indeg = {n: 0 for n in deps}
    for n, ds in deps.items():
        for d in ds:
            indeg[n] += 1
    # Kahn on the "depends on" relation
    rev = {n: set() for n in deps}
    for n, ds in deps.items():
        for d in ds:
            rev[d].add(n)
    ready = [n for n, k in indeg.items() if k == 0]
    seen = 0
    while ready:
        n = ready.pop()
        seen += 1
        for m in rev[n]:
            indeg[m] -= 1
            if indeg[m] == 0:
                ready.append(m)
    return seen != len(deps)


def classify(targets, existing):
    """Set of defect kinds that apply: 'multiple', 'unresolved', 'cycle'. Empty = well-formed.
    targets use resolved paths, multiplicity preserved in lists if a target declares the same output twice."""
    kinds = set()
    seen = {}
    for name, _ins, outs in targets:
        for p in outs:  # outs may be a list: a path listed twice by one target is also a duplicate producer entry
            if p in seen:
                kinds.add("multiple")
            seen[p] = name
    rel = relations([(n, set(i), set(o)) for n, i, o in targets])
    if any(p not in existing for p in rel["unresolved"]):
        kinds.add("unresolved")
    if has_cycle(rel["dependencies"]):
        kinds.add("cycle")
    return kinds


def topo_order(deps):
    """Some dependency-respecting order (deps first), deterministic (by name)."""
    order, done = [], set()
    names = sorted(deps)
    while len(done) < len(names):
        progressed = False
        for n in names:
            if n not in done and deps[n] <= done:
                order.append(n)
                done.add(n)
                progressed = True
        if not progressed:
            raise ValueError("cycle")
    return order


def cone(deps, roots):
    out, stack = set(), list(roots)
    while stack:
        n = stack.pop()
        if n in out:
            continue
        out.add(n)
        stack.extend(deps[n])
    return out
