"""Confirm a seeded defect delivered by a sub-agent and file it under /verif/seeded/<name>/.

usage: python -m mc.seedtool SEED_DIR NAME PROPERTY CHECK [CHECK...]
Steps (all in a scratch clone of /repo under /dev/shm, removed afterwards):
  1. patch applies to /repo's current HEAD;  2. baseline suite: 76 passed with the patch;
  3. demo fails with the patch and passes without it;  4. each named check's quick tier, VERIF_REPO=clone: detected or not.
"""
import glob
import json
import os
import shutil
import subprocess
import sys
import tempfile

VERIF = os.path.dirname(os.path.dirname(os.path.abspath(__file__)))


def run(cmd, **kw):
    return subprocess.run(cmd, capture_output=True, text=True, **kw)


def main():
    seed_dir, name, prop, checks = sys.argv[1], sys.argv[2], sys.argv[3], sys.argv[4:]
    tmp = tempfile.mkdtemp(prefix=f"gwf-seed-x-p{os.getpid()}-", dir="/dev/shm")
    meta = dict(name=name, property=prop, source=seed_dir)
    try:
        clean = os.path.join(tmp, "clean")
        mut = os.path.join(tmp, "mut")
        run(["git", "clone", "-q", "/repo", clean])
        run(["git", "clone", "-q", "/repo", mut])
        patch = os.path.join(seed_dir, "patch.diff")
        r = run(["git", "-C", mut, "apply", "--3way", patch])
        if r.returncode != 0:
            r = run(["git", "-C", mut, "apply", patch])
        meta["patch_applies"] = r.returncode == 0
        if r.returncode != 0:
            print("PATCH DOES NOT APPLY:", r.stderr[:500])
            print(json.dumps(meta))
            return 3
        # store the patch as it applies to the current tree
        newpatch = run(["git", "-C", mut, "diff", "HEAD", "--", "src"]).stdout
        t = run(["/venv/bin/python", "-m", "pytest", "-q", "-p", "no:cacheprovider", "--timeout=900", "--continue-on-collection-errors", "tests"], cwd=mut,
                env=dict(os.environ, PYTHONPATH=os.path.join(mut, "src")))
        tail = (t.stdout.strip().splitlines() or ["?"])[-1]
        meta["baseline_with_patch"] = tail
        demo = (glob.glob(os.path.join(seed_dir, "demo.py")) + glob.glob(os.path.join(seed_dir, "test_demo.py")) + glob.glob(os.path.join(seed_dir, "*.py")))[0]
        def rundemo(src):
            env = dict(os.environ, GWF_SRC=src, PYTHONPATH=src)
            if os.path.basename(demo).startswith("test_"):
                cmd = ["/venv/bin/python", "-m", "pytest", "-q", "-p", "no:cacheprovider", demo]
            else:
                cmd = ["/venv/bin/python", demo]
            try:
                r = subprocess.run(cmd, capture_output=True, text=True, env=env, timeout=300, cwd=tmp)
                return r.returncode, (r.stdout + r.stderr)[-300:]
            except subprocess.TimeoutExpired:
                return "timeout", ""
        rc_mut, out_mut = rundemo(os.path.join(mut, "src"))
        rc_clean, out_clean = rundemo(os.path.join(clean, "src"))
        meta["demo_with_patch"] = rc_mut
        meta["demo_without_patch"] = rc_clean
        meta["confirmed"] = meta["patch_applies"] and "76 passed" in tail and rc_mut not in (0, "timeout") and rc_clean == 0
        print(f"{name}: applies={meta['patch_applies']} suite='{tail}' demo(with)={rc_mut} demo(without)={rc_clean} confirmed={meta['confirmed']}")
        if rc_clean != 0:
            print("   demo on clean tree:", out_clean.replace("\n", " | ")[-300:])
        detected = {}
        for cid in checks:
            ev = os.path.join(VERIF, "evidence", cid + ".json")
            saved = open(ev).read() if os.path.exists(ev) else None
            try:
                r = run([os.path.join(VERIF, "check"), cid, "--tier", "quick"], env=dict(os.environ, VERIF_REPO=mut), timeout=1500)
            except subprocess.TimeoutExpired:
                detected[cid] = dict(exit="timeout", violations=0, first=[])
                print(f"   {cid}: TIMEOUT")
                continue
            viol = [l for l in r.stdout.splitlines() if l.startswith("VIOLATION")]
            sigs = [l.strip()[:260] for l in r.stdout.splitlines() if l.startswith("  sig=")]
            detected[cid] = dict(exit=r.returncode, violations=len(viol), first=sigs[:2])
            print(f"   {cid}: exit={r.returncode} violations={len(viol)} {sigs[0] if sigs else ''}")
            if r.returncode not in (0, 1):
                print(r.stdout[-800:], r.stderr[-500:])
            if saved is not None:
                open(ev, "w").write(saved)
            shutil.rmtree(os.path.join(VERIF, "replays", cid), ignore_errors=True)
        meta["checks"] = detected
        meta["detected_by"] = sorted(c for c, d in detected.items() if d["exit"] == 1 and d["violations"])
        if meta["confirmed"]:
            out = os.path.join(VERIF, "seeded", name)
            os.makedirs(out, exist_ok=True)
            open(os.path.join(out, "patch.diff"), "w").write(newpatch)
            if os.path.abspath(demo) != os.path.abspath(os.path.join(out, os.path.basename(demo))):
                shutil.copy(demo, os.path.join(out, os.path.basename(demo)))
            notes = os.path.join(seed_dir, "notes.txt")
            old_meta = os.path.join(out, "meta.json")
            if not os.path.exists(notes) and os.path.exists(old_meta):
                meta["needs_to_manifest"] = json.load(open(old_meta)).get("needs_to_manifest")
                meta["source"] = json.load(open(old_meta)).get("source")
            if os.path.exists(notes):
                meta["needs_to_manifest"] = open(notes).read()[:1500]
            meta["what_i_ran"] = ["git apply patch.diff in a scratch clone of /repo HEAD", "baseline pytest suite in the clone (PYTHONPATH=clone/src)",
                                  "demo with GWF_SRC=<patched clone>/src (must fail) and GWF_SRC=<clean clone>/src (must pass)",
                                  "VERIF_REPO=<patched clone> ./check <ID> --tier quick for: " + " ".join(checks)]
            json.dump(meta, open(os.path.join(out, "meta.json"), "w"), indent=1)
    finally:
        shutil.rmtree(tmp, ignore_errors=True)
    return 0


if __name__ == "__main__":
    sys.exit(main())
