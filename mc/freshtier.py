"""Fresh-process tier: a designated sub-bound of the CLI-level checks is re-run through a separate interpreter with the simulator
executables on PATH, and must be observationally equal to the in-process run (exit code, stdout, the scheduler's journal of
submissions/cancels, the resulting project state and job table). Catches state leaking between in-process invocations and differences
between the Popen shim and a real exec."""
import json
import re

from mc import world as W


def observe(world, args, input=None, fresh=False, cwd_rel=None):
    import os

    with W.Session(world) as s:
        cwd = os.path.join(s.proj, cwd_rel) if cwd_rel else None
        r = (s.gwf_fresh if fresh else s.gwf)(args, input=input, cwd=cwd)
        snap = s.snapshot()
        journal = [(e["op"], e.get("name"), e.get("id"), tuple(e.get("argv") or ())) for e in s.sim.s["journal"] if e["op"] in ("submit", "cancel")]
        calls = [e["exe"] for e in s.sim.s["journal"] if e["op"] == "call"]
        jobs = {j: (v["name"], v["state"]) for j, v in s.sim.s["jobs"].items()}
        proj = s.proj
    scrub = lambda t: re.sub(r"\x1b\[[0-9;]*m", "", t.replace(proj, "<proj>"))
    # the confirmation prompt echoes the typed answer under click's test runner but not on a pipe: compare stdout without the prompt
    out = re.sub(r"[^\n]*Do you want to continue\? \[y/N\]: ?(?:y\n|n\n)?", "", scrub(r.stdout))
    if args and args[0] == "info" and r.exit_code == 0:
        # `gwf info` prints dependencies/dependents in the iteration order of address-hashed sets: compare as sets
        try:
            out = json.dumps({k: dict(v, dependencies=sorted(v["dependencies"]), dependents=sorted(v["dependents"])) for k, v in json.loads(out).items()}, sort_keys=True)
        except ValueError:
            pass
    err_kind = None
    if r.exit_code != 0:
        err_kind = (r.exc or r.err_summary()).split(":")[0][:60]
    return dict(exit=r.exit_code, stdout=out, err=err_kind, journal=journal, calls=calls, jobs=jobs, state=json.loads(json.dumps(snap.semantic(), sort_keys=True, default=str).replace(proj, "<proj>")))


def compare_batch(acc, batch):
    """batch items: (label, world, args, input, cwd_rel)"""
    for label, world, args, inp, cwd_rel in batch:
        a = observe(world, args, inp, fresh=False, cwd_rel=cwd_rel)
        b = observe(world, args, inp, fresh=True, cwd_rel=cwd_rel)
        acc.extra["fresh_processes"] += 1
        acc.extra["traces_validated"] += 1
        same = a == b
        acc.case(key=None, outcome=f"fresh {args[0] if args else '-'} same={same}", nontrivial=False)
        if not same:
            diff = {k: (a[k], b[k]) for k in a if a[k] != b[k]}
            acc.violation(sig=dict(what="fresh-process run differs from the in-process run", tier="fresh", part=sorted(diff)[0], cmd=args[0] if args else "-"),
                          case=dict(kind="fresh", label=label, args=args, input=inp), observed=diff,
                          msg=f"[fresh-process tier] `gwf {' '.join(args)}` ({label}): in-process vs separate process differ in {sorted(diff)}: {json.dumps(diff, default=str)[:500]}")


def standard_worlds(backends=("slurm", "sge", "lsf"), wfname="fork"):
    """A designated, completely enumerated sub-bound: every world reachable by <=2 actions of a small alphabet."""
    from mc import cliworld as CW

    out = []
    for be in backends:
        seqs = [[], [("gwf", ["run"])], [("gwf", ["run", "B"])], [("gwf", ["run"]), ("env", "start", "A")], [("gwf", ["run"]), ("env", "cancel", "B")],
                [("gwf", ["run", "B"]), ("gwf", ["run"])], [("gwf", ["run"]), ("modify", "src")]]
        for seq in seqs:
            w = CW.build(wfname, be, seq, hashing=(be == "lsf"))
            out.append((f"{wfname}/{be} after {seq}", w))
    return out


def items(cmds, backends=("slurm", "sge", "lsf")):
    return [(label, w, args, inp, None) for label, w in standard_worlds(backends) for args, inp in cmds]
